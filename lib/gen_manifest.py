#!/usr/bin/env python3
"""Regenerates /verif/MANIFEST.json from contracts/registry.py + contracts/na.py and validates it."""
import json, os, sys
V = os.path.dirname(os.path.dirname(os.path.abspath(__file__)))
sys.path.insert(0, os.path.join(V, "contracts"))
import registry, na
props = [json.loads(l) for l in open(os.path.join(V, "properties.jsonl"))]
checks = []
napp = []
for p in props:
    pid = p["id"]
    if pid in registry.PROPS and registry.PROPS[pid].get("claimed", True):
        P = registry.PROPS[pid]
        checks.append({
            "property_id": pid,
            "quick_cmd": "./check %s --tier quick" % pid,
            "thorough_cmd": "./check %s --tier thorough" % pid,
            "evidence_file": "/verif/evidence/%s.json" % pid,
            "replay_cmd_template": "./check %s --replay {path}" % pid,
            "engine": "contracts",
            "level_claimed": {"category": P["level"], "text": P["level_text"], "design_ref": P.get("design_ref", "DESIGN.md section 5, " + pid)},
            "level_note": P["level_note"],
            "technique": P["technique"],
        })
    else:
        reason = na.NA.get(pid) or registry.PROPS.get(pid, {}).get("na_reason") or "contract machinery for this property is not built yet in this round (planned in DESIGN.md section 5); not claimed until its check exists"
        napp.append({"property_id": pid, "reason": reason})
m = {
    "version": 1,
    "setup_cmd": "./setup.sh",
    "hooks": {
        "guard": "kahflane_turdb_verif_small_pages",
        "enable": "page-level obligations (C34, C30 and the B-tree page accessors of C23; harness annotation small_pages=1) build /repo with RUSTFLAGS='--cfg kahflane_turdb_verif_small_pages' (PAGE_SIZE = 256 instead of 16384; the one hook commit). All contracts themselves live outside /repo: contract modules are injected by one `#[cfg(kani)] #[path=…] mod verif_<unit>;` line per source file into a scratch overlay of /repo's working tree on every run (cfg(kani) is set only by the Kani compiler); Verus units are extracted from the working tree on every run.",
        "baseline_off_cmd": "cd /repo && cargo nextest run --workspace --no-fail-fast --test-threads 8 --offline",
        "source_commits": ["d1b393f"],
        "add_only": True,
    },
    "engines": [{"name": "contracts", "path": "/verif/check", "serves_properties": [c["property_id"] for c in checks],
                 "kind_free_text": "contract-based deductive verification of the real code: Kani 0.68 function-level Hoare triples / inductive invariants over the real crate (CBMC), Verus on mechanically extracted functions"}],
    "checks": checks,
    "not_applicable": napp,
    "notes": "exit codes: 0 held, 1 VIOLATION (with replay), 2 UNDECIDED (tool limit, lost anchor, timeout — never an alarm). Known findings: /verif/known_findings.json.",
}
json.dump(m, open(os.path.join(V, "MANIFEST.json"), "w"), indent=1)
try:
    import jsonschema
    jsonschema.validate(m, json.load(open("/root/.vp/MANIFEST.schema.json")))
    print("MANIFEST.json valid: %d checks, %d not_applicable" % (len(checks), len(napp)))
except ImportError:
    print("MANIFEST.json written (jsonschema not importable with this python; run with python3-vt to validate)")
