#!/usr/bin/env python3
"""Shared machinery: overlay of /repo's working tree, contract injection, Kani runner, result
classification, replay, evidence.  See DESIGN.md section 3."""
import json, os, re, shutil, subprocess, sys, time, resource, hashlib, glob

VERIF = os.path.dirname(os.path.dirname(os.path.abspath(__file__)))
REPO = os.environ.get("VERIF_REPO", "/repo")
SCRATCH = os.environ.get("VERIF_SCRATCH", "/var/tmp/turdb-verif")
KANI_TARGET = os.environ.get("VERIF_KANI_TARGET", os.path.join(VERIF, ".cache", "kani-target"))
CONTRACTS = os.path.join(VERIF, "contracts")
REPLAYS = os.environ.get("VERIF_REPLAY_DIR", os.path.join(VERIF, "replays"))
NCPU = os.cpu_count() or 4


class Undecided(Exception):
    """Tooling could not decide (lost anchor, compile error in harness, timeout, unsupported
    construct, memory guard).  Always exit 2, never an alarm."""


def log(*a):
    print(*a, flush=True)


# ----------------------------------------------------------------------------------------------
# overlay
# ----------------------------------------------------------------------------------------------
def make_overlay(tag):
    """Copy /repo's *current working tree* (not HEAD) to a scratch dir outside /repo and /verif."""
    dst = os.path.join(SCRATCH, tag)
    os.makedirs(dst, exist_ok=True)
    ov = os.path.join(dst, "repo")
    r = subprocess.run(["rsync", "-a", "--delete", "--exclude", "/target", "--exclude", "/.git",
                        "--exclude", "/fuzz/target", REPO + "/", ov + "/"], capture_output=True, text=True)
    if r.returncode != 0:
        raise Undecided("rsync of working tree failed: " + r.stderr[-300:])
    os.makedirs(os.path.join(ov, ".cargo"), exist_ok=True)
    with open(os.path.join(ov, ".cargo", "config.toml"), "w") as f:
        f.write("[net]\noffline = true\n")
    return ov


def remove_overlay(tag):
    if os.environ.get("VERIF_KEEP"):
        return
    shutil.rmtree(os.path.join(SCRATCH, tag), ignore_errors=True)


def module_path(src):
    """src/encoding/varint.rs -> encoding::varint ; src/btree/mod.rs -> btree ; src/lib.rs -> ''"""
    p = src[len("src/"):-len(".rs")]
    parts = p.split("/")
    if parts[-1] in ("mod", "lib"):
        parts = parts[:-1]
    return "::".join(parts)


def strip_comments(text):
    text = re.sub(r"//[^\n]*", "", text)
    return text


def check_anchors(ov, unit):
    """Every function signature the contract depends on must be present exactly once."""
    path = os.path.join(ov, unit["src"])
    if not os.path.exists(path):
        raise Undecided(f"lost anchor: source file {unit['src']} not in working tree")
    text = open(path).read()
    norm = re.sub(r"\s+", " ", strip_comments(text))
    for a in unit.get("anchors", []):
        n = norm.count(re.sub(r"\s+", " ", a))
        if n < 1:
            raise Undecided(f"lost anchor in {unit['src']}: `{a}` not found")
    return True


def inject_kani(ov, units):
    """Append one `#[cfg(kani)] #[path=…] mod verif_<unit>;` line to each unchanged source file."""
    with open(os.path.join(ov, "src/lib.rs"), "a") as f:
        f.write('\n#[cfg(kani)] #[path = "%s/kani/_stubs.rs"] pub mod verif_stubs;\n' % CONTRACTS)
    for u in units:
        check_anchors(ov, u)
        with open(os.path.join(ov, u["src"]), "a") as f:
            f.write('\n#[cfg(kani)] #[path = "%s/kani/%s.rs"] mod verif_%s;\n' % (CONTRACTS, u["name"], u["name"]))


# ----------------------------------------------------------------------------------------------
# harness annotations:   //@ props=C27,C23 kind=proof tier=quick bound="…" finding=F1 timeout=600
# ----------------------------------------------------------------------------------------------
ANN = re.compile(r"^//@\s*(.*)$")
FN = re.compile(r"^\s*(?:pub\s+)?fn\s+([A-Za-z0-9_]+)\s*\(")


def parse_harnesses(unit):
    """Harness = a `fn` preceded by a `//@ …` line.  Harnesses stamped out by a local macro are
    supported: a `//@` line inside `macro_rules! m { … fn $name() … }` applies to every
    `m!(harness_name, …);` invocation."""
    path = os.path.join(CONTRACTS, "kani", unit["name"] + ".rs")
    out = []
    pending = None
    doc = []
    cur_macro = None
    macro_ann = {}
    mp = module_path(unit["src"])

    def mk(kv, name, doc):
        h = dict(kv)
        h["name"] = name
        h["props"] = h.get("props", "").split(",")
        h.setdefault("kind", "proof")
        h.setdefault("tier", "quick")
        h["doc"] = " ".join(doc)
        h["full"] = (mp + "::" if mp else "") + "verif_" + unit["name"] + "::" + name
        h["unit"] = unit["name"]
        return h

    for line in open(path):
        st = line.strip()
        m = re.match(r"macro_rules!\s+(\w+)", st)
        if m:
            cur_macro = m.group(1)
        m = ANN.match(st)
        if m:
            kv = {}
            for tok in re.findall(r'(\w+)=("[^"]*"|\S+)', m.group(1)):
                kv[tok[0]] = tok[1].strip('"')
            pending = kv
            doc = []
            continue
        if st.startswith("///"):
            doc.append(st[3:].strip())
            continue
        if pending is not None and re.match(r"^\s*fn\s+\$\w+\s*\(", line) and cur_macro:
            macro_ann[cur_macro] = (pending, doc)
            pending, doc = None, []
            continue
        m = re.match(r"^(\w+)!\(\s*(\w+)\s*[,)]", st)
        if m and m.group(1) in macro_ann:
            kv, d = macro_ann[m.group(1)]
            kv = dict(kv)
            for key in ("tier", "solver", "timeout"):   # per-invocation overrides: `m!(name, …); //@tier=thorough`
                mt = re.search(r"//@%s=(\w+)" % key, st)
                if mt:
                    kv[key] = mt.group(1)
            out.append(mk(kv, m.group(2), d))
            continue
        m = FN.match(line)
        if m and pending is not None:
            out.append(mk(pending, m.group(1), doc))
            pending, doc = None, []
        elif m:
            doc = []
    return out


# ----------------------------------------------------------------------------------------------
# Kani runner
# ----------------------------------------------------------------------------------------------
def _limits(mem_gb):
    def f():
        lim = int(mem_gb * (1 << 30))
        resource.setrlimit(resource.RLIMIT_AS, (lim, lim))
        os.setsid()
    return f


UNDECIDED_PAT = re.compile(r"unwinding assertion|not currently supported|unsupported construct|"
                           r"is not supported|Kani does not support|unsupported_construct|recursion unwinding", re.I)


def run_kani(ov, harnesses, tag, jobs=None, harness_timeout=900, total_timeout=None, solver=None,
             mem_gb=24, extra=(), isolate=False, rustflags=None):
    """Run `cargo kani` for the harnesses (exact names) and parse the JSON export.
    isolate=False: one invocation, Kani's own `-j` pool.
    isolate=True : one invocation per harness (own process tree, own JSON), `jobs` at a time, with an
                   RSS watchdog instead of RLIMIT_AS — a CBMC crash or kill then costs only that harness.
    Returns (dict full-name -> result, command string)."""
    if not harnesses:
        return {}, ""
    if isolate and len(harnesses) > 1:
        import concurrent.futures
        jobs = jobs or 2
        # build once (first harness alone), then the rest in parallel reuse the compiled crate
        results = {}
        cmds = []
        first, rest = harnesses[0], harnesses[1:]
        r, c = run_kani(ov, [first], tag, jobs=1, harness_timeout=harness_timeout, solver=solver, mem_gb=mem_gb, extra=extra, isolate=True, rustflags=rustflags)
        results.update(r)
        cmds.append(c)
        with concurrent.futures.ThreadPoolExecutor(max_workers=jobs) as ex:
            futs = [ex.submit(run_kani, ov, [h], tag, 1, harness_timeout, None, solver, mem_gb, extra, True, rustflags) for h in rest]
            for fu in futs:
                r, c = fu.result()
                results.update(r)
        return results, cmds[0].replace(first["full"], "<each harness in its own invocation>")
    jobs = jobs or max(1, min(len(harnesses), NCPU - 2))
    outdir = os.path.join(SCRATCH, tag)
    jpath = os.path.join(outdir, "kani-%s.json" % hashlib.md5(",".join(h["full"] for h in harnesses).encode()).hexdigest()[:8])
    lpath = jpath[:-5] + ".log"
    if os.path.exists(jpath):
        os.remove(jpath)
    cmd = ["cargo", "kani", "--lib", "-Z", "function-contracts", "-Z", "stubbing", "-Z", "unstable-options",
           "--target-dir", KANI_TARGET, "--exact", "-j", str(jobs), "--output-format", os.environ.get("VERIF_KANI_FORMAT", "terse"),
           "--harness-timeout", str(int(harness_timeout)), "--export-json", jpath]
    if solver:
        cmd += ["--solver", solver]
    cmd += list(extra)
    for h in harnesses:
        cmd += ["--harness", h["full"]]
    env = dict(os.environ, CARGO_NET_OFFLINE="true", CARGO_TERM_COLOR="never")
    if rustflags:
        env["RUSTFLAGS"] = (env.get("RUSTFLAGS", "") + " " + rustflags).strip()
    total_timeout = total_timeout or (harness_timeout * (1 + (len(harnesses) - 1) // jobs) + 900)
    t0 = time.time()
    killed_for_mem = False
    with open(lpath, "w") as lf:
        if isolate:
            p = subprocess.Popen(cmd, cwd=ov, stdout=lf, stderr=subprocess.STDOUT, env=env, preexec_fn=os.setsid)
            # RSS watchdog over the process group
            while True:
                try:
                    p.wait(timeout=5)
                    break
                except subprocess.TimeoutExpired:
                    pass
                if time.time() - t0 > total_timeout:
                    break
                rss = _group_rss_gb(p.pid)
                if rss > mem_gb:
                    killed_for_mem = True
                    break
            if p.poll() is None:
                try:
                    os.killpg(p.pid, 9)
                except Exception:
                    p.kill()
                p.wait()
        else:
            p = subprocess.Popen(cmd, cwd=ov, stdout=lf, stderr=subprocess.STDOUT, env=env, preexec_fn=_limits(mem_gb))
            try:
                p.wait(timeout=total_timeout)
            except subprocess.TimeoutExpired:
                try:
                    os.killpg(p.pid, 9)
                except Exception:
                    p.kill()
                p.wait()
    wall = time.time() - t0
    logtxt = open(lpath, errors="replace").read()
    if killed_for_mem:
        logtxt += "\n[verif] memory guard: process group exceeded %d GB RSS and was killed\n" % mem_gb
    results = {}
    if re.search(r"^error(\[E\d+\])?:", logtxt, re.M) and not os.path.exists(jpath) and "Checking harness" not in logtxt:
        # compile error: in the repo's own code or in a harness module — not this tool's verdict
        errs = re.findall(r"^error.*(?:\n\s+-->.*)?", logtxt, re.M)[:6]
        raise Undecided("cargo kani did not build the overlay: " + " | ".join(e.replace("\n", " ") for e in errs))
    data = None
    if os.path.exists(jpath):
        try:
            data = json.load(open(jpath))
        except Exception:
            data = None
    per_log = split_log(logtxt)
    if data:
        stats = {c["harness_id"]: c for c in data.get("cbmc", [])}
        props = {c["harness_id"]: c.get("property_details", {}) for c in data.get("property_details", [])}
        for r in data.get("verification_results", {}).get("results", []):
            hid = r["harness_id"]
            failed = [c for c in r.get("checks", []) if c.get("status") in ("Failure", "FAILURE")]
            undet = [c for c in r.get("checks", []) if c.get("status") in ("Undetermined", "UNDETERMINED")]
            results[hid] = {
                "status": r.get("status"),
                "duration_s": r.get("duration_ms", 0) / 1000.0,
                "n_checks": len(r.get("checks", [])),
                "failed_checks": [{"description": c.get("description"), "function": c.get("function"),
                                   "location": c.get("location"), "category": c.get("category")} for c in failed],
                "undetermined": len(undet),
                "props": props.get(hid, {}),
                "solver_s": (stats.get(hid, {}).get("cbmc_stats", {}) or {}).get("runtime_decision_procedure_s"),
                "solver": (stats.get(hid, {}).get("configuration", {}) or {}).get("solver"),
                "log": per_log.get(hid, "") or (logtxt[-3000:] if len(harnesses) == 1 else ""),
            }
    for h in harnesses:
        if h["full"] not in results:
            lg = per_log.get(h["full"], "")
            results[h["full"]] = {"status": "NoResult", "duration_s": None, "n_checks": 0, "failed_checks": [],
                                  "undetermined": 0, "props": {}, "solver_s": None, "solver": None,
                                  "log": (lg or logtxt[-3000:]) + ("\nmemory guard" if killed_for_mem else "")}
    return results, " ".join(cmd)


def _group_rss_gb(pgid):
    """sum of RSS (GB) over all processes in the process group"""
    tot = 0
    for d in os.listdir("/proc"):
        if not d.isdigit():
            continue
        try:
            with open("/proc/%s/stat" % d) as f:
                st = f.read()
            fields = st[st.rindex(")") + 2:].split()
            if int(fields[2]) != pgid:   # pgrp
                continue
            tot += int(fields[21]) * 4096  # rss pages
        except Exception:
            continue
    return tot / float(1 << 30)


def split_log(logtxt):
    """terse -j output prefixes lines with 'Thread N:'; group blocks by harness."""
    cur = {}
    out = {}
    for line in logtxt.splitlines():
        m = re.match(r"Thread (\d+): ?(.*)$", line)
        if m:
            t, rest = m.group(1), m.group(2)
            m2 = re.match(r"Checking harness (\S+?)\.\.\.", rest)
            if m2:
                cur[t] = m2.group(1)
                out.setdefault(cur[t], "")
            elif t in cur:
                out[cur[t]] += rest + "\n"
            cur["_last"] = cur.get(t)
        else:
            m2 = re.match(r"Checking harness (\S+?)\.\.\.", line)
            if m2:
                cur["_last"] = m2.group(1)
                out.setdefault(cur["_last"], "")
            elif cur.get("_last"):
                out[cur["_last"]] += line + "\n"
    return out


def classify(h, r):
    """-> ('pass'|'fail'|'undecided', reason)"""
    st = r["status"]
    if st == "Success":
        # cover properties: every cover must be satisfied (vacuity guard)
        p = r.get("props", {})
        if p.get("unsatisfiable", 0) > 0:
            return "undecided", "vacuity guard: %d cover propert(ies) unsatisfiable" % p["unsatisfiable"]
        if r.get("undetermined", 0) > 0 or p.get("undetermined", 0) > 0:
            return "undecided", "undetermined checks"
        return "pass", ""
    if st == "NoResult":
        lg = r.get("log", "")
        if re.search(r"timed out|Timeout|TIMEOUT", lg):
            return "undecided", "solver timeout"
        if re.search(r"out of memory|bad_alloc|memory exhausted|Killed|SIGKILL|signal: 9|std::bad_alloc", lg, re.I):
            return "undecided", "memory guard"
        return "undecided", "no result from Kani (timeout, crash or memory guard)"
    fc = r["failed_checks"]
    if not fc:
        lg = r.get("log", "")
        if re.search(r"timed out|timeout", lg, re.I):
            return "undecided", "solver timeout"
        return "undecided", "Kani reported failure without a failed check: " + lg[-300:].replace("\n", " ")
    real = [c for c in fc if not UNDECIDED_PAT.search((c.get("description") or "") + " " + (c.get("category") or ""))]
    if not real:
        return "undecided", "only unwinding/unsupported-construct checks failed: " + "; ".join(sorted({c["description"] or "" for c in fc}))[:300]
    return "fail", "; ".join(sorted({"%s [%s]" % (c["description"], (c.get("location") or {}).get("file", "?") + ":" + str((c.get("location") or {}).get("line", "?"))) for c in real}))[:1500]


# ----------------------------------------------------------------------------------------------
# replay: concrete playback of a failing harness on the real (natively compiled) code
# ----------------------------------------------------------------------------------------------
def replay_kani(ov, h, prop, tag, r, timeout=900, rustflags=None):
    """Ask Kani for a concrete counterexample (`--concrete-playback=print`), save it, and execute
    it with `cargo kani playback` — which compiles the *real* crate natively (rustc, no CBMC) with
    cfg(kani) and runs the harness body on the concrete input.  Returns (path, replayed:bool)."""
    os.makedirs(REPLAYS, exist_ok=True)
    path = os.path.join(REPLAYS, "%s-%s.rs" % (prop, h["name"]))
    env = dict(os.environ, CARGO_NET_OFFLINE="true", CARGO_TERM_COLOR="never")
    if rustflags:
        env["RUSTFLAGS"] = (env.get("RUSTFLAGS", "") + " " + rustflags).strip()
    cmd = ["cargo", "kani", "--lib", "-Z", "function-contracts", "-Z", "stubbing", "-Z", "unstable-options",
           "-Z", "concrete-playback", "--concrete-playback=print", "--target-dir", KANI_TARGET, "--exact",
           "--harness", h["full"], "--harness-timeout", str(timeout)]
    test_src, replayed, pb_out = None, False, ""
    try:
        p = subprocess.run(cmd, cwd=ov, capture_output=True, text=True, env=env, timeout=timeout + 300,
                           preexec_fn=_limits(24))
        out = p.stdout + p.stderr
        blocks = re.findall(r"```\s*\n(.*?#\[test\].*?)```", out, re.S)
        # Kani also emits playback tests for satisfied `cover!` statements; those are not counterexamples
        blocks = [b for b in blocks if not re.search(r"Check for `cover`", b)]
        if blocks:
            test_src = "\n".join(blocks[:4])
    except subprocess.TimeoutExpired:
        out = "concrete playback generation timed out"
    if test_src:
        # put the generated unit test into the contract module inside the overlay only
        modfile = os.path.join(CONTRACTS, "kani", h["unit"] + ".rs")
        ovmod = os.path.join(os.path.dirname(ov), "replay_" + h["unit"] + ".rs")
        with open(ovmod, "w") as f:
            f.write(open(modfile).read())
            f.write("\n// ---- concrete playback generated by Kani ----\n")
            f.write(test_src)
        # repoint the mod line to the copy
        for root, _, files in os.walk(os.path.join(ov, "src")):
            for fn in files:
                fp = os.path.join(root, fn)
                s = open(fp, errors="replace").read()
                if modfile in s:
                    open(fp, "w").write(s.replace(modfile, ovmod))
        cmd2 = ["cargo", "kani", "playback", "-Z", "concrete-playback", "--lib",
                "--", "kani_concrete_playback_" + h["name"]]
        env2 = dict(env, CARGO_TARGET_DIR=KANI_TARGET + "-playback")
        try:
            p2 = subprocess.run(cmd2, cwd=ov, capture_output=True, text=True, env=env2, timeout=1800)
            full = p2.stdout + p2.stderr
            pb_out = p2.stdout[-4000:] + "\n--- stderr (tail) ---\n" + p2.stderr[-1500:]
            # the playback test "fails" (panics) iff the counterexample reproduces on the real code
            replayed = bool(re.search(r"test result: FAILED|panicked at", full)) and "error: could not compile" not in full
        except subprocess.TimeoutExpired:
            pb_out = "playback run timed out"
    with open(path, "w") as f:
        f.write("// REPLAY for property %s, failed obligation `%s` (%s)\n" % (prop, h["full"], h.get("kind")))
        f.write("// obligation: %s\n" % h.get("doc", ""))
        f.write("// failed checks: %s\n" % classify(h, r)[1])
        f.write("// replayed_on_real_code: %s\n" % ("true" if replayed else "false"))
        f.write("// how to re-run: apply the same tree, then `%s/check %s --replay %s`\n" % (VERIF, prop, path))
        if test_src:
            f.write("// ---- concrete input found by CBMC (Kani concrete playback unit test) ----\n")
            f.write(test_src + "\n")
            f.write("/* ---- output of running it natively against the real code ----\n%s\n*/\n" % pb_out.replace("*/", "* /"))
        else:
            f.write("// no-failing-input-found: Kani produced no concrete playback for this failure.\n")
            f.write("/* ---- verifier output ----\n%s\n*/\n" % (r.get("log", "") or out)[-6000:].replace("*/", "* /"))
    return path, replayed, bool(test_src)


# ----------------------------------------------------------------------------------------------
# assumption scan (vacuity guard c)
# ----------------------------------------------------------------------------------------------
SCAN = re.compile(r"kani::assume\(|kani::stub\(|stub_verified|assume\(|admit\(|external_body|assume_specification|#\[verifier::external")


def scan_assumptions(paths):
    out = []
    for p in paths:
        if not os.path.exists(p):
            continue
        for i, line in enumerate(open(p), 1):
            s = line.strip()
            if s.startswith("//"):
                continue
            if SCAN.search(s):
                out.append("%s:%d: %s" % (os.path.relpath(p, VERIF), i, s[:160]))
    return out


def write_evidence(prop, ev):
    edir = os.environ.get("VERIF_EVIDENCE_DIR", os.path.join(VERIF, "evidence"))
    os.makedirs(edir, exist_ok=True)
    p = os.path.join(edir, prop + ".json")
    with open(p, "w") as f:
        json.dump(ev, f, indent=1, sort_keys=False)
    return p
