#!/usr/bin/env python3
"""Writes contracts/obligation_counts.json: number of Kani harnesses per (property, tier) and of Verus
items per unit, as parsed from the committed contract files.  `check` compares the number of obligations
it actually generated with these counts (vacuity guard b): a mismatch is UNDECIDED."""
import json, os, sys
V = os.path.dirname(os.path.dirname(os.path.abspath(__file__)))
sys.path.insert(0, os.path.join(V, "lib")); sys.path.insert(0, os.path.join(V, "contracts"))
import vlib, registry, verus_run
out = {"kani": {}, "verus": {}}
for prop, P in registry.PROPS.items():
    for tier in ("quick", "thorough"):
        n = 0
        for u in P.get("kani_units", []):
            for h in vlib.parse_harnesses(dict(registry.UNITS[u], name=u)):
                if prop not in h["props"]:
                    continue
                if h.get("fallback") or h["tier"] == "manual":
                    continue
                if tier == "thorough" or h["tier"] == "quick":
                    n += 1
        out["kani"]["%s/%s" % (prop, tier)] = n
    for vu in P.get("verus_units", []):
        gen, _f, _r = verus_run.build(vu)
        items = [it for it in verus_run.index_items(gen) if it["kind"] in ("fn", "proof fn", "exec fn") and it["name"] != "main"]
        out["verus"][vu] = len(items)
json.dump(out, open(os.path.join(V, "contracts", "obligation_counts.json"), "w"), indent=1, sort_keys=True)
print(json.dumps(out["kani"], sort_keys=True)); print(out["verus"])
