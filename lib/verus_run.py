#!/usr/bin/env python3
"""Verus units: mechanical extraction of named functions from /repo's *working tree* into one
verus! file, anchored edits (contracts, loop invariants, proof blocks, and a closed list of rewrites),
single-file `verus` run, mapping of errors back to obligations (one obligation per function/lemma).

Template syntax (contracts/verus/<unit>.rs):

    /*@@EXTRACT
    file: src/encoding/key.rs
    fn: encode_escaped_bytes
    edit: after `<exact source snippet>`            # insert text after the snippet
    <<<
    ...inserted text...
    >>>
    edit: before `<snippet>`
    edit: replace[<rewrite-kind>] `<snippet>`       # rewrite-kind must be in REWRITE_KINDS
    @@*/

The snippet must occur exactly once in the extracted function text (whitespace-normalised match is
NOT used: the match is exact), otherwise the verdict is UNDECIDED ("annotation no longer fits"),
never "holds" and never an alarm.  Everything else of the function text is copied verbatim, so the
text Verus verifies is the text in /repo plus the listed insertions/rewrites."""
import os, re, json, subprocess, time, hashlib
import vlib
from vlib import Undecided

REWRITE_KINDS = {
    "ref_pattern": "`for &x in e {` -> `for r in it: e … { let x = *r;` (Verus rejects ref patterns; pure desugaring)",
    "eyre_result": "`Result<T>` (eyre) -> `Result<T, VErr>`; error payload dropped",
    "bail": "`bail!(…)` -> `return Err(VErr {})`; error message dropped",
    "ensure": "`ensure!(c, …)` -> `if !(c) { return Err(VErr {}); }`; error message dropped",
    "drop_attr": "attribute such as #[inline] dropped",
    "int_cast": "`as` cast made explicit for Verus' overflow checking (same value; cast site listed)",
    "loop_range": "`for y in a..b {` -> same loop with an `iter:` ghost name so the invariant can mention the position",
    "visibility": "`pub`/`pub(crate)` qualifier dropped",
    "named_return": "`-> T {` -> `-> (r: T) requires … ensures … {`: names the return value so the postcondition can mention it and splices the contract; behaviour unchanged",
    "loop_contract": "`for x in a..b {` / `while c {` -> same loop header with a ghost iterator name and the spliced `invariant … decreases …` (+ proof block at the top of the body); behaviour unchanged",
}


def find_fn(text, name):
    """Locate `fn name` (free function or method) and return (start, end) of signature+body by brace matching."""
    m = None
    for mm in re.finditer(r"(?m)^[ \t]*(?:pub(?:\([a-z]+\))?\s+)?(?:const\s+)?fn\s+" + re.escape(name) + r"\b", text):
        if m is not None:
            raise Undecided("duplicated anchor: more than one `fn %s`" % name)
        m = mm
    if m is None:
        raise Undecided("lost anchor: `fn %s` not found" % name)
    i = text.index("{", m.end())
    depth = 0
    j = i
    in_str = None
    while j < len(text):
        c = text[j]
        if in_str:
            if c == "\\":
                j += 2
                continue
            if c == in_str:
                in_str = None
        elif c == '"':
            in_str = '"'
        elif c == "'" and re.match(r"'(\\.|[^\\'])'", text[j:j + 4]):
            j += len(re.match(r"'(\\.|[^\\'])'", text[j:j + 4]).group(0))
            continue
        elif c == "/" and text[j:j + 2] == "//":
            j = text.index("\n", j)
            continue
        elif c == "{":
            depth += 1
        elif c == "}":
            depth -= 1
            if depth == 0:
                return m.start(), j + 1
        j += 1
    raise Undecided("unbalanced braces in fn %s" % name)


def parse_template(tpath):
    src = open(tpath).read()
    units = []
    out_parts = []
    pos = 0
    for m in re.finditer(r"/\*@@EXTRACT\n(.*?)@@\*/", src, re.S):
        out_parts.append(src[pos:m.start()])
        body = m.group(1)
        spec = {"edits": []}
        lines = body.split("\n")
        k = 0
        while k < len(lines):
            ln = lines[k]
            if ln.startswith("file:"):
                spec["file"] = ln[5:].strip()
            elif ln.startswith("fn:"):
                spec["fn"] = ln[3:].strip()
            elif ln.startswith("edit:"):
                mm = re.match(r"edit:\s*(after|before|replace)(?:\[(\w+)\])?\s*`(.*)`\s*$", ln)
                if not mm:
                    raise Undecided("bad edit line in template: " + ln)
                mode, kind, snip = mm.group(1), mm.group(2), mm.group(3)
                # multi-line snippet support: literal \n in snippet
                snip = snip.replace("\\n", "\n")
                text = ""
                if k + 1 < len(lines) and lines[k + 1].strip() == "<<<":
                    k += 2
                    buf = []
                    while lines[k].strip() != ">>>":
                        buf.append(lines[k])
                        k += 1
                    text = "\n".join(buf)
                if mode == "replace" and kind not in REWRITE_KINDS:
                    raise Undecided("rewrite kind %r not in the closed list" % kind)
                spec["edits"].append({"mode": mode, "kind": kind, "snippet": snip, "text": text})
            k += 1
        units.append(spec)
        out_parts.append(("@@FN", len(units) - 1))
        pos = m.end()
    out_parts.append(src[pos:])
    return out_parts, units


def build(unit_name):
    tpath = os.path.join(vlib.CONTRACTS, "verus", unit_name + ".rs")
    parts, specs = parse_template(tpath)
    log_rewrites = []
    functions = []
    gen = []
    fn_ranges = []  # (name, kind, first_line, last_line)
    for p in parts:
        if isinstance(p, tuple):
            spec = specs[p[1]]
            path = os.path.join(vlib.REPO, spec["file"])
            if not os.path.exists(path):
                raise Undecided("lost anchor: %s missing" % spec["file"])
            text = open(path).read()
            a, b = find_fn(text, spec["fn"])
            ftxt = text[a:b]
            # dedent
            ind = re.match(r"[ \t]*", ftxt).group(0)
            if ind:
                ftxt = "\n".join(l[len(ind):] if l.startswith(ind) else l for l in ftxt.split("\n"))
            orig = ftxt
            for e in spec["edits"]:
                n = ftxt.count(e["snippet"])
                if n != 1:
                    raise Undecided("annotation no longer fits fn %s: snippet %r occurs %d times (expected 1)" % (spec["fn"], e["snippet"][:60], n))
                i = ftxt.index(e["snippet"])
                if e["mode"] == "after":
                    j = i + len(e["snippet"])
                    ftxt = ftxt[:j] + "\n" + e["text"] + "\n" + ftxt[j:]
                elif e["mode"] == "before":
                    ftxt = ftxt[:i] + e["text"] + "\n" + ftxt[i:]
                else:
                    ftxt = ftxt[:i] + e["text"] + ftxt[i + len(e["snippet"]):]
                    log_rewrites.append("%s::%s rewrite[%s] %r (%s)" % (spec["file"], spec["fn"], e["kind"], e["snippet"][:50], REWRITE_KINDS[e["kind"]]))
            functions.append("%s :: fn %s  [sha256(original text)=%s, %d insertions, %d rewrites]" % (
                spec["file"], spec["fn"], hashlib.sha256(orig.encode()).hexdigest()[:16],
                len([e for e in spec["edits"] if e["mode"] != "replace"]), len([e for e in spec["edits"] if e["mode"] == "replace"])))
            gen.append("// ---- extracted from %s (fn %s) ----\n" % (spec["file"], spec["fn"]) + ftxt + "\n")
        else:
            gen.append(p)
    out = "".join(gen)
    return out, functions, log_rewrites


ITEM = re.compile(r"^(?:pub\s+)?(?:open\s+|closed\s+)?(?:broadcast\s+)?(proof\s+fn|fn|spec\s+fn|exec\s+fn)\s+(\w+)")


def index_items(gen_text):
    """map line -> (item name, kind) for every fn/proof fn in the generated file"""
    items = []
    lines = gen_text.split("\n")
    cur = None
    for i, l in enumerate(lines, 1):
        m = ITEM.match(l)
        if m:
            if cur:
                cur["end"] = i - 1
            cur = {"name": m.group(2), "kind": m.group(1).replace("  ", " "), "start": i, "end": len(lines)}
            items.append(cur)
    return items


def run_unit(unit_name, prop, tier, only=None):
    t0 = time.time()
    gen, functions, rewrites = build(unit_name)
    work = os.path.join(vlib.SCRATCH, "verus-%s-%d" % (unit_name, os.getpid()))
    os.makedirs(work, exist_ok=True)
    gpath = os.path.join(work, unit_name + "_gen.rs")
    open(gpath, "w").write(gen)
    rl = "40" if tier == "quick" else "160"
    cmd = ["verus", gpath, "--rlimit", rl, "--time", "--output-json"]
    try:
        p = subprocess.run(cmd, capture_output=True, text=True, timeout=1800, cwd=work)
    except subprocess.TimeoutExpired:
        raise Undecided("verus timed out")
    out = p.stdout
    err = p.stderr
    try:
        j = json.loads(out[out.index("{"):])
    except Exception:
        j = {}
    vr = j.get("verification-results", {})
    items = index_items(gen)
    # obligations = top-level (column 0) exec fns and proof fns of the generated file; `main` is the empty stub
    exec_or_proof = [it for it in items if it["kind"] in ("fn", "proof fn", "exec fn") and it["name"] != "main"]
    failed = {}
    undec = {}
    # errors are on stderr in rustc format: "error: <msg>\n  --> file:line:col"
    for m in re.finditer(r"(?ms)^(error(?:\[E\d+\])?: .*?)\n\s+--> [^\n]*?:(\d+):\d+", err):
        msg, line = m.group(1), int(m.group(2))
        it = next((x for x in items if x["start"] <= line <= x["end"]), None)
        name = it["name"] if it else "<file>"
        if re.search(r"rlimit|Resource limit|timed out|not supported|unsupported|The verifier does not yet support", msg, re.I):
            undec.setdefault(name, []).append(msg.split("\n")[0][:200] + " (line %d)" % line)
        else:
            failed.setdefault(name, []).append(msg.split("\n")[0][:200] + " (line %d)" % line)
    compile_err = bool(re.search(r"^error(\[E\d+\])?:", err, re.M)) and not vr
    obligations = []
    solver_ms = (j.get("times-ms", {}).get("smt", {}) or {}).get("total", 0)
    for it in exec_or_proof:
        if only and only not in it["name"]:
            continue
        is_extracted = any(("fn %s " % it["name"]) in f for f in functions)
        kind = "proof"
        if it["name"] in failed:
            verdict, reason = "fail", "; ".join(failed[it["name"]])
        elif it["name"] in undec:
            verdict, reason = "undecided", "; ".join(undec[it["name"]])
        elif compile_err or not vr or vr.get("encountered-vir-error") or vr.get("encountered-error"):
            verdict, reason = "undecided", "verus did not complete: " + (err.strip().split("\n")[0][:300] if err.strip() else "no result")
        else:
            verdict, reason = "pass", ""
        obligations.append({"obligation": "verus:%s::%s" % (unit_name, it["name"]), "kind": kind, "backend": "verus/z3",
                            "verdict": verdict, "reason": reason, "what": ("real function extracted from /repo" if is_extracted else "lemma / spec-level obligation"),
                            "solver_s": None, "wall_s": None})
    # any error that could not be attributed
    if "<file>" in failed or "<file>" in undec:
        obligations.append({"obligation": "verus:%s::<file>" % unit_name, "kind": "proof", "backend": "verus/z3", "verdict": "undecided",
                            "reason": "; ".join(failed.get("<file>", []) + undec.get("<file>", [])), "what": "", "solver_s": None, "wall_s": None})
    # sanity: verus' own count must cover our items
    nver = vr.get("verified", 0)
    if vr and not failed and not undec and nver < len(exec_or_proof):
        obligations.append({"obligation": "verus:%s::<count>" % unit_name, "kind": "proof", "backend": "verus/z3", "verdict": "undecided",
                            "reason": "verus verified %d items < %d items in file" % (nver, len(exec_or_proof)), "what": "", "solver_s": None, "wall_s": None})
    if obligations:
        obligations[0]["solver_s"] = solver_ms / 1000.0
        obligations[0]["wall_s"] = round(time.time() - t0, 2)
    replay = None
    if any(o["verdict"] == "fail" for o in obligations):
        os.makedirs(vlib.REPLAYS, exist_ok=True)
        replay = os.path.join(vlib.REPLAYS, "%s-verus-%s.txt" % (prop, unit_name))
        with open(replay, "w") as f:
            f.write("REPLAY for property %s — Verus unit %s\n" % (prop, unit_name))
            f.write("no-failing-input-found: Verus reports failed obligations without a counterexample.\n")
            for o in obligations:
                if o["verdict"] == "fail":
                    f.write("failed obligation `%s`: %s\n" % (o["obligation"], o["reason"]))
            f.write("\n---- verifier output ----\n" + err[-8000:] + "\n")
            f.write("\n---- generated file (functions extracted from /repo's working tree) ----\n" + gen)
    # assumption scan on the generated file
    scan = []
    for i, l in enumerate(gen.split("\n"), 1):
        s = l.strip()
        if s.startswith("//"):
            continue
        if re.search(r"\bassume\(|\badmit\(|external_body|assume_specification|#\[verifier::external", s):
            scan.append("verus:%s_gen.rs:%d: %s" % (unit_name, i, s[:160]))
    import shutil
    if not os.environ.get("VERIF_KEEP"):
        shutil.rmtree(work, ignore_errors=True)
    return {"cmd": " ".join(["verus", unit_name + "_gen.rs", "--rlimit", rl]), "functions": functions,
            "assumptions": ["verus extraction " + r for r in rewrites] + ["scan: " + s for s in scan],
            "obligations": obligations, "replay": replay}
