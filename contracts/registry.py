"""Registry: which source units carry which contract files, and which property uses which unit.
Harness-level metadata (kind, tier, props, bound) lives in the `//@` line above each harness in
contracts/kani/<unit>.rs and is parsed mechanically (lib/vlib.py: parse_harnesses)."""

TRUSTED_BASE = [
    "Kani 0.68.0 compiler (rustc MIR -> goto) and CBMC 6.11.0 with its SAT back end (cadical unless stated)",
    "rustc MIR semantics as implemented by Kani (integer, cast, shift, IEEE-754 binary64 semantics)",
    "eyre error construction replaced by contracts/kani/_stubs.rs (error payloads are outside every obligation; Ok/Err is inside)",
]

STANDING_ASSUMPTIONS = [
    "eyre::capture_handler, eyre::private::new_adhoc, eyre::private::format_err and alloc::fmt::format are stubbed (contracts/kani/_stubs.rs); every Err(Report) is mem::forget-ed, never dropped or formatted",
    "termination is not proved by Kani (unwinding assertions only)",
]

SMALL_PAGES = "--cfg kahflane_turdb_verif_small_pages"

UNITS = {
    "varint": {
        "src": "src/encoding/varint.rs",
        "anchors": [
            "pub fn varint_len(value: u64) -> usize",
            "pub fn encode_varint(value: u64, buf: &mut [u8]) -> usize",
            "pub fn decode_varint(buf: &[u8]) -> Result<(u64, usize)>",
        ],
    },
    "key": {
        "src": "src/encoding/key.rs",
        "anchors": [
            "pub fn encode_null<B: KeyBuffer>(buf: &mut B)",
            "pub fn encode_bool<B: KeyBuffer>(b: bool, buf: &mut B)",
            "pub fn encode_int<B: KeyBuffer>(n: i64, buf: &mut B)",
            "pub fn encode_float<B: KeyBuffer>(f: f64, buf: &mut B)",
            "pub fn encode_text<B: KeyBuffer>(s: &str, buf: &mut B)",
            "pub fn encode_blob<B: KeyBuffer>(data: &[u8], buf: &mut B)",
            "pub fn encode_date<B: KeyBuffer>(days: i32, buf: &mut B)",
            "pub fn encode_timestamp<B: KeyBuffer>(micros: i64, buf: &mut B)",
            "pub fn encode_uuid<B: KeyBuffer>(uuid: &[u8; 16], buf: &mut B)",
            "pub fn encode_time<B: KeyBuffer>(micros: i64, buf: &mut B)",
            "pub fn encode_timestamptz<B: KeyBuffer>(micros: i64, tz_offset_mins: i16, buf: &mut B)",
            "pub fn encode_interval<B: KeyBuffer>(months: i32, days: i32, micros: i64, buf: &mut B)",
            "pub fn encode_macaddr<B: KeyBuffer>(addr: &[u8; 6], buf: &mut B)",
            "pub fn encode_enum<B: KeyBuffer>(type_id: u32, ordinal: u32, buf: &mut B)",
            "fn encode_escaped_bytes<B: KeyBuffer>(data: &[u8], buf: &mut B)",
            "pub fn encode_value<B: KeyBuffer>(value: &Value, buf: &mut B)",
            "pub fn decode_key(data: &[u8]) -> Result<(DecodedKey, usize)>",
            "fn decode_escaped_bytes(data: &[u8]) -> Result<(Vec<u8>, usize)>",
        ],
    },
    "row_serde": {
        "src": "src/sql/row_serde.rs",
        "anchors": [
            "pub fn serialize_row_into(row: &[Value<'_>], buf: &mut Vec<u8>)",
            "fn serialize_value_into(value: &Value<'_>, buf: &mut Vec<u8>)",
            "pub fn deserialize_row_into(",
            "fn deserialize_value(data: &[u8], offset: &mut usize) -> Result<Value<'static>>",
            "pub fn row_size(row: &[Value<'_>]) -> usize",
            "fn value_size(value: &Value<'_>) -> usize",
        ],
    },
    "datetime": {
        "src": "src/sql/functions/datetime.rs",
        "anchors": [
            "fn is_leap_year(year: i64) -> bool",
            "fn days_in_month(year: i64, month: u32) -> u32",
            "fn date_to_days(year: i64, month: u32, day: u32) -> i64",
            "fn days_to_date(days: i64) -> (i64, u32, u32)",
            "fn day_of_week(year: i64, month: u32, day: u32) -> u32",
            "fn day_of_year(year: i64, month: u32, day: u32) -> u32",
        ],
    },
    "constraints": {
        "src": "src/constraints/mod.rs",
        "anchors": ["fn days_from_ymd(year: i32, month: u32, day: u32) -> i32"],
    },
    "literal": {
        "src": "src/parsing/literal.rs",
        "anchors": [
            "fn is_leap_year(year: i32) -> bool",
            "fn days_in_month(year: i32, month: u32) -> u32",
            "fn date_to_days_since_epoch(year: i32, month: u32, day: u32) -> i32",
        ],
    },
    "budget": {
        "src": "src/memory/budget.rs",
        "anchors": [
            "pub fn with_limit(limit: usize) -> Self",
            "pub fn total_used(&self) -> usize",
            "pub fn shared_available(&self) -> usize",
            "pub fn allocate(&self, pool: Pool, bytes: usize) -> Result<()>",
            "pub fn release(&self, pool: Pool, bytes: usize)",
            "pub fn track(&mut self, bytes: usize) -> Result<()>",
            "pub fn pre_allocate(&mut self, bytes: usize) -> Result<()>",
        ],
    },
    "agg_state": {
        "src": "src/sql/state.rs",
        "anchors": [
            "pub(crate) fn new() -> Self",
            "pub(crate) fn update(&mut self, func: &AggregateFunction, row: &ExecutorRow)",
            "pub(crate) fn finalize(&self, func: &AggregateFunction) -> Value<'static>",
        ],
    },
    "sort_cmp": {
        "src": "src/sql/executor.rs",
        "anchors": [
            "fn compare_values(a: &Value, b: &Value) -> std::cmp::Ordering",
            "fn eval_binary_op_standalone(",
            "pub fn new(child: E, limit: Option<u64>, offset: Option<u64>) -> Self",
            "fn next(&mut self) -> Result<Option<ExecutorRow<'a>>>",
        ],
    },
    "value_cmp": {
        "src": "src/types/value.rs",
        "anchors": [
            "pub fn compare(&self, other: &Value) -> Option<Ordering>",
            "pub fn compare_for_sort(&self, other: &Value) -> Ordering",
        ],
    },
    "owned_cmp": {
        "src": "src/database/query/helpers.rs",
        "anchors": ["pub fn compare_owned_values(a: &OwnedValue, b: &OwnedValue) -> Ordering"],
    },
    "predicate": {
        "src": "src/sql/predicate.rs",
        "anchors": [
            "fn eval_expr(&self, expr: &crate::sql::ast::Expr<'a>, row: &ExecutorRow<'a>) -> bool",
            "fn eval_value(",
            "fn eval_unary_op(",
            "fn eval_binary_op(",
            "fn value_to_bool(&self, val: &Value<'a>) -> bool",
            "fn eval_arithmetic_op<F, G>(",
            "fn compare_values(",
            "fn values_equal(&self, a: &Value<'a>, b: &Value<'a>) -> bool",
            "fn value_cmp(&self, a: &Value<'a>, b: &Value<'a>) -> Option<std::cmp::Ordering>",
        ],
    },
    "freelist": {
        "src": "src/storage/freelist.rs",
        "anchors": [
            "pub fn allocate<S: Storage>(&mut self, storage: &mut S) -> Result<Option<u32>>",
            "pub fn release<S: Storage>(&mut self, storage: &mut S, page_no: u32) -> Result<()>",
            "fn create_new_trunk<S: Storage>(&mut self, storage: &mut S, page_no: u32) -> Result<()>",
            "fn initialize_trunk<S: Storage>(&mut self, storage: &mut S, page_no: u32) -> Result<()>",
            "pub fn from_bytes(data: &[u8]) -> Result<&Self>",
            "pub fn from_bytes_mut(data: &mut [u8]) -> Result<&mut Self>",
        ],
    },
    "headers": {
        "src": "src/storage/headers.rs",
        "anchors": ["pub fn from_bytes(bytes: &[u8]) -> Result<&Self>"],
    },
    "page": {
        "src": "src/storage/page.rs",
        "anchors": ["pub fn from_bytes(data: &[u8]) -> Result<&Self>", "pub fn validate_page(data: &[u8]) -> Result<()>"],
    },
    "leaf": {
        "src": "src/btree/leaf.rs",
        "anchors": [
            "pub fn from_page(data: &'a [u8]) -> Result<Self>",
            "pub fn slot_at(&self, index: usize) -> Result<&Slot>",
            "pub fn key_at(&self, index: usize) -> Result<&'a [u8]>",
            "pub fn value_at(&self, index: usize) -> Result<&'a [u8]>",
            "pub fn value_len_at(&self, index: usize) -> Result<usize>",
        ],
    },
    "simd_scan": {
        "src": "src/btree/simd_scan.rs",
        "anchors": [
            "pub fn simd_prefix_search_scalar(",
            "pub fn find_key_simd(page_data: &[u8], key: &[u8], cell_count: usize) -> SearchResult",
            "pub unsafe fn simd_prefix_search_avx2(",
        ],
    },
    "interior": {
        "src": "src/btree/interior.rs",
        "anchors": [
            "pub fn from_page(data: &'a [u8]) -> Result<Self>",
            "pub fn slot_at(&self, index: usize) -> Result<&InteriorSlot>",
            "pub fn key_at(&self, index: usize) -> Result<&'a [u8]>",
            "pub fn find_child(&self, key: &[u8]) -> Result<(u32, Option<usize>)>",
        ],
    },
    "view": {
        "src": "src/records/view.rs",
        "anchors": ["pub fn new(data: &'a [u8], schema: &'a Schema) -> Result<Self>", "pub fn get_int8(&self, col_idx: usize) -> Result<i64>"],
    },
    "leaf_ops": {
        "src": "src/btree/leaf.rs",
        "anchors": [
            "pub fn init(data: &'a mut [u8]) -> Result<Self>",
            "pub fn insert_cell_at(&mut self, key: &[u8], value: &[u8], insert_pos: usize) -> Result<()>",
            "pub fn delete_cell(&mut self, index: usize) -> Result<()>",
            "pub fn update_cell_value_in_place(&mut self, index: usize, new_value: &[u8]) -> Result<()>",
            "pub fn key_at(&self, index: usize) -> Result<&'a [u8]>",
            "pub fn value_at(&self, index: usize) -> Result<&'a [u8]>",
        ],
    },
    "record": {
        "src": "src/records/builder.rs",
        "anchors": [
            "pub fn new(schema: &'a Schema) -> Self",
            "pub fn reset(&mut self)",
            "pub fn set_null(&mut self, col_idx: usize)",
            "pub fn set_int4(&mut self, col_idx: usize, value: i32) -> Result<()>",
            "pub fn set_blob(&mut self, col_idx: usize, data: &[u8]) -> Result<()>",
            "pub fn build(&self) -> Result<Vec<u8>>",
        ],
    },
    "owned_arith": {
        "src": "src/types/owned_value.rs",
        "anchors": ["pub fn eval_arithmetic("],
    },
    "dbkey": {
        "src": "src/database/database.rs",
        "anchors": ["pub(crate) fn encode_value_as_key<B: crate::encoding::key::KeyBuffer>("],
    },
    "toast": {
        "src": "src/storage/toast.rs",
        "anchors": ["pub fn decode(data: &[u8]) -> Result<Self>", "pub fn encode(&self) -> [u8; TOAST_POINTER_SIZE]", "pub fn is_toast_pointer(data: &[u8]) -> bool"],
    },
    "sq8": {
        "src": "src/hnsw/quantization.rs",
        "anchors": ["pub fn from_bytes(buf: &'a [u8]) -> eyre::Result<Self>"],
    },
    "numeric": {
        "src": "src/sql/functions/numeric.rs",
        "anchors": ["fn eval_abs<'a>(args: &[Option<Value<'a>>]) -> Option<Value<'a>>", "fn eval_sign<'a>(args: &[Option<Value<'a>>]) -> Option<Value<'a>>",
                    "fn eval_div<'a>(args: &[Option<Value<'a>>]) -> Option<Value<'a>>", "fn eval_mod<'a>(args: &[Option<Value<'a>>]) -> Option<Value<'a>>",
                    "fn eval_ceil<'a>(args: &[Option<Value<'a>>]) -> Option<Value<'a>>", "fn eval_floor<'a>(args: &[Option<Value<'a>>]) -> Option<Value<'a>>"],
    },
    "wal": {
        "src": "src/storage/wal.rs",
        "anchors": ["pub fn frame_type(&self) -> WalFrameType", "pub fn new_undo_frame(", "pub fn undo_table_id(&self) -> u32", "pub fn undo_txn_id(&self) -> u32"],
    },
}

PROPS = {
    "C27": {
        "level": "proof",
        "level_text": "Proof for all inputs: the real varint_len/encode_varint/decode_varint are checked bit-precisely by Kani/CBMC over every u64 and every byte string (a 10-byte symbolic buffer with symbolic length is complete because the decoder never reads past byte 8, which is itself an obligation). Oracle for the length is the documented 6-range table.",
        "level_note": "Trusted: Kani/CBMC, rustc MIR semantics; eyre error construction stubbed (error payload not verified, Ok/Err is). No bounded stand-ins.",
        "technique": "Kani full-domain loop-free Hoare triples on the real functions (contract = harness-level requires/ensures)",
        "kani_units": ["varint"],
        "n_obligations": {"quick": 4, "thorough": 4},
        "explanation": "Full-domain Hoare triples on the real varint_len/encode_varint/decode_varint: all 2^64 values, all byte strings (10 symbolic bytes + symbolic length is complete because the decoder never indexes past byte 8).",
        "trusted": ["u64::from_be_bytes / copy_from_slice / try_into as compiled by Kani (their MIR is executed, not assumed)"],
    },
    "C26": {
        "level": "proof",
        "level_text": "Proof for all inputs of the fixed-width encoders (all pairs of i64, of f64 bit patterns, dates, times, timestamps, timestamptz, intervals, uuids, macaddrs, enums, bools): key order == value order, injectivity, decode(encode(x) ++ anything) == x, documented prefix ranking across types, shared ZERO key as the only int/float collision; Database::encode_value_as_key (what the engine writes) equals these encoders for every scalar variant. TEXT/BLOB escape codec for byte strings of ANY length (Verus, functions extracted from /repo each run): encoder == esc spec, decoder == spec parser, decode∘encode = id with any suffix, and s <lex t ==> esc(s)+x <lex esc(t)+y for all suffixes (composite keys compare column by column). Kani twins of the codec at bounded length run alongside.",
        "level_note": "Trusted: Kani/CBMC, Verus/Z3; the Vec/SmallVec impls of KeyBuffer (harness supplies a fixed-array KeyBuffer; Verus assumes the trait contract); Rust slice Ord as the meaning of bytewise comparison; prelude bail!/ensure! macros in the Verus unit. Open known finding: TIMESTAMPTZ offset truncated to i16 in encode_value_as_key. Nested array/tuple/range/json/vector encoders, Decimal-through-f64 and the blob-encoded variants of encode_value_as_key are not covered.",
        "technique": "Kani full-domain Hoare triples on the real generic encoders/decoder + Verus loop-invariant proof of the escape codec on mechanically extracted functions",
        "kani_units": ["key", "dbkey"],
        "verus_units": ["key_escape"],
        "explanation": "",
        "assumptions": ["Verus unit key_escape: the real `impl KeyBuffer for Vec<u8>` / `SmallVec` are assumed to satisfy the trait contract (push appends one byte, extend_from_slice appends the slice)"],
    },
    "C33": {
        "level": "proof",
        "level_text": "Proof for all payloads of every fixed-width Value variant (Int, Float incl. NaN/inf/±0, Null, Uuid, MacAddr, Inet4/6, TimestampTz, Interval, Enum, Decimal, Point, GeoBox, Circle): deserialize(serialize(v) ++ anything) returns the same variant and payload and consumes exactly value_size(v) == bytes written; the decoder is total on arbitrary bytes behind every fixed-width discriminant. Bounded stand-ins: Vector of 0..2 elements; two rows per buffer with (1,0) columns (cursor advances by exactly row_size, also over an empty row). Text/Blob/Jsonb/ToastPointer payloads and 2-column row sequences are written down but tier=manual (Vec/SmallVec/String decoding exceeded 40 min or 24 GB in CBMC).",
        "level_note": "Trusted: Kani/CBMC; alloc::vec::Vec and SmallVec as compiled by Kani (executed, not assumed). Variable-length byte/text payloads are NOT decided by any registered command; `row.len() as u16` truncation above 65535 columns not covered. One defect found here was repaired (Float(0.0) came back as Int(0)).",
        "technique": "Kani full-domain Hoare triples on the real RowSerde functions (per-variant round-trip + size contract), bounded harnesses for variable-length payloads and row sequences",
        "kani_units": ["row_serde"],
        "explanation": "",
    },
    "C41": {
        "level": "proof",
        "level_text": "Proof for every valid date of years 1..9999 that each internal calendar converter (date functions' date_to_days, DEFAULT parser's days_from_ymd, literal parser's date_to_days_since_epoch) satisfies anchor + successor rule of the proleptic Gregorian calendar, hence all equal the civil day number and agree with each other (literal converter: Verus on the extracted function, year loop unbounded; a Kani twin at the century years runs alongside); days_to_date inverts date_to_days; leap/month-length helpers (which decide rejection of invalid days) match the rule. Text parsing/rendering and TIME arithmetic are not covered (partial).",
        "level_note": "Trusted: Kani/CBMC (kissat for the partitioned inverse). The induction over days from the anchor is a meta-argument stated in contracts/kani/_calendar_oracle.rs. Not covered: string splitting/number parsing in parse_date/parse_time/parse_timestamp, canonical rendering, the inline JDN arithmetic in CompiledPredicate::parse_date.",
        "technique": "Kani full-domain Hoare triples (anchor + successor induction step) on the real calendar kernels; year loop closed by unwind bound derived from the precondition",
        "kani_units": ["datetime", "constraints", "literal"],
        "verus_units": ["literal_year_loop"],
        "explanation": "",
    },
    "C39": {
        "level": "proof",
        "level_text": "Proof of the SEQUENTIAL refinement only: for an arbitrary counter state with sum(pools) <= limit, allocate either fails leaving all five counters unchanged or adds `bytes` to exactly the named pool and keeps the sum <= limit; release subtracts (saturating) from exactly the named pool; allocate+release restores the state; PeriodicBudgetTracker::track / pre_allocate move the tracker's claim in lock-step with its successful allocations and Drop releases exactly that claim. By induction from with_limit this covers every single-threaded history. The property's quantifier over INTERLEAVINGS is not decided: the check-then-CAS on the per-pool counter is a cross-pool race no sequential contract can see.",
        "level_note": "Partial: schedules not covered (Kani has no threads; Verus would need the code ported to its atomic/permission types, i.e. a model). Assumes compare_exchange_weak never fails spuriously (Kani models it as strong); sizes <= isize::MAX (Rust allocation bound) so counter sums cannot overflow.",
        "technique": "Kani inductive step contracts over an arbitrary state satisfying the invariant (sequential refinement)",
        "kani_units": ["budget"],
        "explanation": "",
        "assumptions": ["compare_exchange_weak modelled without spurious failure; single thread", "bytes <= isize::MAX and limit <= isize::MAX (precondition: Rust allocation-size bound)"],
    },
    "C16": {
        "level": "proof",
        "level_text": "Proof (inductive) for the accumulator only: AggregateState::new establishes, and update preserves for an arbitrary state and an arbitrary next INTEGER-or-NULL cell, an invariant tying the real fields to a ghost summary (rows, non-NULL count, exact sum, min, max); finalize returns COUNT(*)/SUM/AVG/MIN/MAX as SQL defines from that summary (NULLs ignored, empty -> NULL for AVG/MIN/MAX). Float MIN/MAX step contract. By induction this covers every input sequence of every length. Grouping (one row per key, NULL keys), HAVING, COUNT(expr) vs COUNT(*) dispatch and the planner are NOT covered (partial).",
        "level_note": "Partial. Three open known findings (empty SUM = 0, integer SUM overflow wraps/panics, mixed Int/Float column). Float SUM/AVG not claimed (rounding). HashAggregateExecutor, HAVING and the second aggregate path in database.rs are outside every obligation.",
        "technique": "Kani inductive invariant + per-operation step contracts against a ghost summary (arbitrary state satisfying the invariant)",
        "kani_units": ["agg_state"],
        "explanation": "",
    },
    "C15": {
        "level": "proof",
        "level_text": "Proof for the three sort comparators (SortExecutor::compare_values, Value::compare_for_sort, compare_owned_values) over all Int/Float/NULL (and Bool/Date/Time/Timestamp) key values of one type per key: NULL before every non-NULL value, numeric order inside a type, antisymmetric and transitive (a total preorder, the precondition under which sort_by yields the ORDER BY order); for sort-key arithmetic (eval_binary_op_standalone: + and - over every Int/Float operand combination, operands in the written order); and an inductive step contract of LimitExecutor::next over an arbitrary executor state: the emitted sequence is exactly rows [offset, offset+limit). Partial: DISTINCT, sort direction at the call-site closures, Text/Blob keys (delegated to Ord for str/[u8]), the inline Limit arm of DynamicExecutor and the sort driver are not covered.",
        "level_note": "Partial. Open known findings: mixed Int/Float sort keys (SortExecutor returns Equal; `as f64` coercion is not transitive above 2^53). Trusted: slice::sort_by sorts correctly given a total preorder; str/[u8] Ord.",
        "technique": "Kani full-domain Hoare triples on the real comparators (order axioms) + inductive step contract for LimitExecutor::next against a harness-side child executor",
        "kani_units": ["sort_cmp", "value_cmp", "owned_cmp"],
        "explanation": "",
    },
    "C14": {
        "level": "proof",
        "level_text": "Proof for the value-level kernels of the WHERE evaluator (CompiledPredicate::compare_values, eval_binary_op AND/OR, eval_unary_op NOT): for every Int/Float/NULL operand pair and all six comparison operators the kernel answers true iff the comparison is TRUE under SQL three-valued logic (minus the known NULL = NULL class); AND/OR/NOT results are TRUE exactly when Kleene logic says TRUE; the kernels behind IN / BETWEEN / CASE: value_cmp is None iff an operand is NULL and otherwise the exact Int order / IEEE order, values_equal is SQL `=` on Int/Float operands (exact, same Int -> f64 coercion) and never matches a NULL. Bounded stand-ins on literal expression trees: eval_expr over AND/OR of boolean literals; IS [NOT] NULL over NULL, TRUE and the computed operand NULL + TRUE; [NOT] IN and [NOT] BETWEEN over non-NULL boolean literals, IN with NULL operands / NULL list elements — through eval_value and eval_expr. Partial: IN / BETWEEN over arbitrary expression trees, LIKE, text comparison, column lookup, the optimizer's pushdown and which evaluator a query uses are not covered.",
        "level_note": "Partial. Open known findings: NULL = NULL is TRUE; AND/OR return 0 instead of NULL for UNKNOWN; eval_expr has no NOT arm (answers true); NOT IN / NOT BETWEEN with a NULL answer TRUE instead of UNKNOWN. Int/Float comparison uses the engine's `as f64` coercion (exact comparison above 2^53 is not demanded). Trusted: CompiledPredicate::new as compiled by Kani (hashbrown map construction), never dropped.",
        "technique": "Kani full-domain Hoare triples on the real comparison/connective kernels against literal Kleene truth tables; bounded enumeration of literal expression trees for eval_expr",
        "kani_units": ["predicate"],
        "explanation": "",
    },
    "C20": {
        "level": "proof",
        "level_text": "Proof for the calendar kernels of the date functions (shared with C41: date_to_days / days_to_date / day_of_week / day_of_year / leap and month-length rules follow the proleptic Gregorian calendar for every date of years 1..9999) and for integer arithmetic in both expression evaluators (CompiledPredicate::eval_binary_op and OwnedValue::eval_arithmetic): +, -, * over all i64 pairs whose result is an i64 are exact (oracle: checked_*), division and modulo by zero yield NULL for every dividend, NULL in => NULL out, shifts and unary minus; and for the integer kernels of ABS, SIGN, CEIL, FLOOR, DIV, MOD (exact on every i64, NULL on division by zero, NULL in => NULL out). Partial: the quotient/remainder VALUE for non-zero divisors is tier=manual (64-bit division equivalence did not finish in 40 min); string functions, floating-point functions, CAST, control flow and text rendering are not covered.",
        "level_note": "Partial. Open known finding: integer overflow (a+b, a-b, a*b, i64::MIN / -1, i64::MIN % -1, pow) panics in debug builds / wraps in release instead of reporting an error. str-level reasoning is outside both back ends.",
        "technique": "Kani full-domain Hoare triples on the real arithmetic and calendar kernels",
        "kani_units": ["predicate", "datetime", "owned_arith", "numeric"],
        "explanation": "",
    },
    "C34": {
        "explanation": "Bounded: PAGE_SIZE scaled to 256 bytes by the cfg hook; chain of <= 2 trunk pages; within that configuration every entry count, entry value and page byte is symbolic and the step contracts are inductive.",
        "level": "other",
        "level_text": "Bounded stand-in for an inductive proof: inductive step contracts showing the freelist is a LIFO stack of released pages — for an ARBITRARY well-formed (Freelist, store) pair of each chain shape, allocate returns exactly the top of the stack (a previously released, not yet re-allocated page) or None iff empty, release(p) pushes p, free_count always equals the stack size (the reported free count is what allocations can return), the invariant is preserved, nothing else is modified (witness byte over both pages) and the file-header page 0 is never requested. All entry counts 0..=TRUNK_MAX_ENTRIES, all entries and all page bytes are symbolic. Bounds: the real code is compiled with PAGE_SIZE scaled to 256 bytes through the cfg hook (TRUNK_MAX_ENTRIES = 58 instead of 4090), and the chain has at most 2 trunk pages (2-page harness store). With the shipped 16 KiB pages one step obligation needs 10-15 min and > 10 GB in CBMC, which is why the scaled configuration is used; the thorough tier additionally discharges the allocate step contract (shape head -> next) at the SHIPPED page size (TRUNK_MAX_ENTRIES = 4090, every count symbolic), the release step at that size exceeded 60 GB and is tier=manual.",
        "level_note": "Not a proof for the shipped constant: same source, PAGE_SIZE = 256 via cfg(kahflane_turdb_verif_small_pages); chain length <= 2 trunks. Precondition of release: the page is not currently in the freelist (caller obligation). In the entry case the released page number ranges over all u32 >= 3 (outside the harness store). Trusted: zerocopy ref_from_bytes/mut_from_bytes as compiled by Kani; harness-side Storage impl.",
        "technique": "Kani inductive invariant + per-operation step contracts over an arbitrary well-formed state (bounded: scaled page size, chain <= 2), frame by witness index, against the real Storage trait implemented by a harness-side page array",
        "kani_units": ["freelist"],
        "mem_gb": 60,
        "harness_timeout": 1200,
        
    },
    "C23": {
        "level": "proof",
        "level_text": "Proof (complete over the input bytes) that the fixed-size decoders return a value or an error and never panic, overflow or read out of bounds: decode_varint on every byte string; the three file-header decoders on any 0..160 bytes; PageHeader::from_bytes / validate_page on any bytes of any length up to a page; decode_key behind every non-recursive known prefix (and 11 representative unknown prefix bytes) on any 0..24 bytes; RowSerde::deserialize_value for every fixed-width discriminant; ToastPointer::decode (with decode(encode(p)) == p), SQ8VectorRef::from_bytes and the WAL frame header bit fields (frame type, file / table / txn ids; undo-frame packing round trip) on any bytes. Bounded (same source compiled with PAGE_SIZE = 256): LeafNode::{from_page, slot_at, key_at, value_at, value_len_at} and InteriorNode::{from_page, slot_at, key_at} on ANY page bytes and any index. Partial: JSONB, array, catalog, WAL-frame and HNSW decoders, recursive decode_key arms, InteriorNode::find_child and opening corrupted database files are not covered; RecordView getters are an open known finding.",
        "level_note": "Partial. Two defects found by these obligations were repaired (slot_at bound, value_at length overflow); one is open (RecordView getters panic on short records). Obligations that exceeded the machine budget are tier=manual and in no registered command (find_child, nested decode_key patterns). The file-system level clause (opening a corrupted database) is outside this technique.",
        "technique": "Kani Hoare triples over fully symbolic input bytes (and symbolic length / index) on the real decoders; Kani's bounds, overflow and unwrap checks are the postcondition",
        "kani_units": ["varint", "key", "row_serde", "headers", "page", "leaf", "interior", "view", "toast", "sq8", "wal"],
        "harness_timeout": 900,
        "explanation": "",
    },
    "C30": {
        "claimed": True,
        "level": "other",
        "level_text": "Bounded stand-in: (1) window invariant of the AVX2 narrowing over its whole loop for every cell count 8..16 (two batches + remainder), every sorted prefix vector and every target — no slot whose prefix equals the target and not the insertion point is cut off — with the six intrinsics replaced by lane-wise reference definitions; (2) the same window invariant for the scalar narrowing on arbitrary well-formed slot arrays of <= 9 slots. Together with the final binary search (plain code) this is what makes find_key equal a reference search. Bounds: PAGE_SIZE scaled to 256 bytes, <= 16 / <= 9 slots, keys of 1..5 bytes. The end-to-end obligation (dispatch with a nondeterministic CPU feature + narrowing + final key comparison == reference) is written down as tier=manual: it did not finish in 40 min.",
        "level_note": "Bounded (slot counts, scaled pages). AVX2 intrinsics are stubbed by lane-wise reference definitions (contracts/kani/simd_scan.rs: avx2_ref; Kani's own models of them were too slow), the CPU-feature probe by a nondeterministic bool. NEON path (aarch64) not covered. The final binary search loop of find_key_simd is covered only through the window-invariant argument, not by an end-to-end obligation.",
        "technique": "Kani bounded Hoare triples: window invariant (left <= lower bound, upper bound <= right) of the real AVX2 and scalar narrowing functions against a reference scan",
        "kani_units": ["simd_scan"],
        "rustflags": "--cfg kahflane_turdb_verif_small_pages",
        "harness_timeout": 1800,
        "explanation": "Bounded window-invariant obligations for the AVX2 (8..16 slots, lane-wise intrinsic stubs) and scalar (<= 9 slots) narrowing on scaled 256-byte pages.",
    },
    "C29": {
        "claimed": False,
        "na_reason": "Attempted, not decided: per-operation contracts for one leaf page (contracts/kani/leaf_ops.rs: init / insert_cell_at / delete_cell / update_cell_value_in_place over an arbitrary well-formed page, scaled pages, <= 3 cells) exceeded 25 min per obligation in CBMC; the tree-level clauses (separators, equal depth, leaf chain, no page reachable twice) need a ghost tree over split/propagate and were not attempted. Not claimed.",
        "level": "other",
        "level_text": "Bounded stand-in, single-node clauses only: for an ARBITRARY well-formed leaf page (every page byte symbolic) with <= 3 cells and keys/values of 1..3 bytes, compiled with pages scaled to 256 bytes, LeafNodeMut::init / insert_cell_at / delete_cell / update_cell_value_in_place keep the page structurally valid (header counters consistent, slot and cell areas inside the page and disjoint, cells pairwise disjoint, slot prefix == key prefix, keys strictly increasing) and change exactly the addressed entry. Partial: separators bound subtrees, equal leaf depth, leaf chain and no page reachable twice are tree-level clauses over split/propagate and are NOT covered.",
        "level_note": "Bounded (cells <= 3, key/value <= 3 bytes, PAGE_SIZE = 256 via the cfg hook, fragmentation below the compaction threshold). Interior nodes and all multi-page invariants not covered.",
        "technique": "Kani per-operation step contracts over an arbitrary well-formed page (bounded), abstract view read through the real accessors, frame by witness index",
        "kani_units": ["leaf_ops"],
        "harness_timeout": 1500,
        "mem_gb": 48,
        "jobs": 3,
        "explanation": "Bounded per-operation page invariant on one leaf page (scaled page size, <= 3 cells).",
    },
    "C31": {
        "claimed": False,
        "na_reason": "Attempted, not decided: the bounded round-trip / reset-equals-fresh obligations for the schema (INT4, BLOB) (contracts/kani/record.rs) exceeded 45 GB in CBMC (RecordBuilder state is Vec<Vec<u8>> + Vec<ColumnValue> + Schema with String names). Not claimed.",
        "level": "other",
        "level_text": "Bounded stand-in by schema shape: for the schema (INT4, BLOB), every INT4 value, every NULL mask and blob payloads of 0..2 bytes, RecordBuilder::build followed by RecordView reads returns the same NULL flags, value and bytes through the plain and the _opt getters; and a record built after reset() is byte-identical to one built by a fresh builder whatever row was staged before the reset. Partial: other column types, more than one variable column, arrays/composites/JSONB and the OwnedValue glue are not covered.",
        "level_note": "Bounded by schema shape (one fixed + one variable column) and payload length <= 2. Trusted: Vec/String as compiled by Kani.",
        "technique": "Kani bounded Hoare triples on the real RecordBuilder/RecordView (round trip and reset-equals-fresh)",
        "kani_units": ["record"],
        "harness_timeout": 1500,
        "mem_gb": 45,
        "isolate": True,
        "jobs": 2,
        "explanation": "Bounded by schema shape: (INT4, BLOB), payload <= 2 bytes.",
    },
}
