// C41 — Verus unit `literal_year_loop`: the DATE/TIMESTAMP literal converter of src/parsing/literal.rs
// (`date_to_days_since_epoch`, with its year loop of up to 8029 iterations) equals the civil day number
// defined recursively from the calendar rule — for every year 1..=9999, with no unwinding bound.
//
//   civil(y,m,d) = yd(y) + md(y,m) + d - 1
//   yd(1970) = 0, yd(y+1) = yd(y) + ylen(y)            (year lengths 365/366 by the 4/100/400 rule)
//   md(y,1) = 0,  md(y,m+1) = md(y,m) + dim(y,m)       (month lengths)
// which satisfies by construction:  civil(1970,1,1) = 0  and  civil(next(x)) = civil(x) + 1
// (lemma_civil_successor) — the same anchor + successor characterisation the Kani units prove for
// date_to_days (date functions) and days_from_ymd (DEFAULT parser).
use vstd::prelude::*;

verus! {

pub open spec fn leap(y: int) -> bool { (y % 4 == 0 && y % 100 != 0) || (y % 400 == 0) }
pub open spec fn ylen(y: int) -> int { if leap(y) { 366 } else { 365 } }
pub open spec fn dim(y: int, m: int) -> int {
    if m == 1 || m == 3 || m == 5 || m == 7 || m == 8 || m == 10 || m == 12 { 31 }
    else if m == 4 || m == 6 || m == 9 || m == 11 { 30 }
    else if m == 2 { if leap(y) { 29 } else { 28 } }
    else { 0 }
}
/// days from 1970-01-01 to y-01-01 (negative before 1970)
pub open spec fn yd(y: int) -> int
    decreases (if y >= 1970 { y - 1970 } else { 1970 - y })
{
    if y == 1970 { 0 } else if y > 1970 { yd(y - 1) + ylen(y - 1) } else { yd(y + 1) - ylen(y) }
}
/// days from y-01-01 to y-m-01
pub open spec fn md(y: int, m: int) -> int
    decreases m
{
    if m <= 1 { 0 } else { md(y, m - 1) + dim(y, m - 1) }
}
pub open spec fn civil(y: int, m: int, d: int) -> int { yd(y) + md(y, m) + d - 1 }

proof fn lemma_yd_step(y: int)
    ensures yd(y + 1) == yd(y) + ylen(y)
{
    if y >= 1970 {
        assert(yd(y + 1) == yd(y) + ylen(y));
    } else {
        // y < 1970: yd(y) = yd(y+1) - ylen(y)
        assert(yd(y) == yd(y + 1) - ylen(y));
    }
}

proof fn lemma_md_bounds(y: int, m: int)
    requires 1 <= m <= 13
    ensures 0 <= md(y, m) <= 31 * (m - 1)
    decreases m
{
    if m > 1 { lemma_md_bounds(y, m - 1); }
}

proof fn lemma_md_13(y: int)
    ensures md(y, 13) == ylen(y)
{
    reveal_with_fuel(md, 14);
}

proof fn lemma_yd_bounds(y: int)
    requires 1 <= y <= 10000
    ensures
        y >= 1970 ==> 0 <= yd(y) <= 366 * (y - 1970),
        y < 1970 ==> -366 * (1970 - y) <= yd(y) <= 0,
    decreases (if y >= 1970 { y - 1970 } else { 1970 - y })
{
    if y > 1970 { lemma_yd_bounds(y - 1); } else if y < 1970 { lemma_yd_bounds(y + 1); }
}

/// anchor + successor: the recursive definition IS the proleptic Gregorian day count
proof fn lemma_civil_successor(y: int, m: int, d: int)
    requires 1 <= m <= 12, 1 <= d <= dim(y, m)
    ensures
        civil(1970, 1, 1) == 0,
        d < dim(y, m) ==> civil(y, m, d + 1) == civil(y, m, d) + 1,
        d == dim(y, m) && m < 12 ==> civil(y, m + 1, 1) == civil(y, m, d) + 1,
        d == dim(y, m) && m == 12 ==> civil(y + 1, 1, 1) == civil(y, m, d) + 1,
{
    reveal_with_fuel(md, 3);
    assert(md(1970, 1) == 0);
    if d == dim(y, m) && m < 12 {
        assert(md(y, m + 1) == md(y, m) + dim(y, m));
    }
    if d == dim(y, m) && m == 12 {
        lemma_md_13(y);
        assert(md(y, 13) == md(y, 12) + dim(y, 12));
        lemma_yd_step(y);
        assert(md(y + 1, 1) == 0);
    }
}

/*@@EXTRACT
file: src/parsing/literal.rs
fn: is_leap_year
edit: replace[named_return] `fn is_leap_year(year: i32) -> bool {`
<<<
fn is_leap_year(year: i32) -> (r: bool)
    ensures r == leap(year as int)
{
>>>
@@*/

/*@@EXTRACT
file: src/parsing/literal.rs
fn: days_in_month
edit: replace[named_return] `fn days_in_month(year: i32, month: u32) -> u32 {`
<<<
fn days_in_month(year: i32, month: u32) -> (r: u32)
    ensures r as int == dim(year as int, month as int)
{
>>>
@@*/

/*@@EXTRACT
file: src/parsing/literal.rs
fn: date_to_days_since_epoch
edit: replace[named_return] `fn date_to_days_since_epoch(year: i32, month: u32, day: u32) -> i32 {`
<<<
fn date_to_days_since_epoch(year: i32, month: u32, day: u32) -> (r: i32)
    requires 1 <= year <= 9999, 1 <= month <= 12, 1 <= day <= 31
    ensures r as int == civil(year as int, month as int, day as int)
{
>>>
edit: replace[loop_contract] `for y in 1970..year {`
<<<
for y in iter: 1970..year
            invariant
                1970 <= year <= 9999,
                days as int == yd(y as int),
                0 <= days <= 366 * (y - 1970),
        {
            proof { lemma_yd_step(y as int); }
>>>
edit: replace[loop_contract] `for y in year..1970 {`
<<<
for y in iter: year..1970
            invariant
                1 <= year < 1970,
                days as int == yd(year as int) - yd(y as int),
                -366 * (y - year) <= days <= 0,
        {
            proof { lemma_yd_step(y as int); }
>>>
edit: replace[loop_contract] `for m in 1..month {`
<<<
proof {
        if year < 1970 { assert(yd(1970) == 0); }
        lemma_yd_bounds(year as int);
    }
    let ghost base = days as int;
    for m in iter: 1..month
        invariant
            1 <= month <= 12,
            base == yd(year as int),
            -366 * 1970 <= base <= 366 * 8030,
            days as int == base + md(year as int, m as int),
            0 <= md(year as int, m as int) <= 31 * (m - 1),
    {
        proof { lemma_md_bounds(year as int, m as int + 1); }
>>>
@@*/

} // verus!
fn main() {}
