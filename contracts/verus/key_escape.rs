// C26 — Verus unit `key_escape`: the TEXT/BLOB escape codec of src/encoding/key.rs for byte strings of
// ANY length.  The two exec functions below the EXTRACT markers are copied from /repo's working tree on
// every run (lib/verus_run.py); only the listed insertions/rewrites are applied.
//
// What is proved (all lengths, no bound):
//   E1  encode_escaped_bytes appends exactly esc(data)                        (loop invariant vs. spec fn)
//   D1  decode_escaped_bytes(data) == dec_from(data, 0, [])                   (exec decoder == spec parser)
//   L1  lemma_dec_inverse:  dec_from(pre + esc(s) + rest, |pre|, acc) == Some((acc + s, |pre| + |esc(s)|))
//       => decoding an encoded key returns the original bytes and consumes exactly the encoding,
//          whatever follows (next column of a composite key)
//   L2  lemma_esc_order:    s <lex t  ==>  esc(s) + x <lex esc(t) + y   for all suffixes x, y
//       => bytewise key order == value order for TEXT/BLOB, also inside composite keys; together with
//          trichotomy this gives injectivity and the converse direction
use vstd::prelude::*;

macro_rules! bail { ($($t:tt)*) => { return Err(VErr {}) }; }
#[allow(unused_macros)]
macro_rules! ensure { ($c:expr, $($t:tt)*) => { if !($c) { return Err(VErr {}); } }; }

verus! {

pub struct VErr {}

// The real trait has no spec; this is the contract the two real impls (Vec<u8>, SmallVec) are ASSUMED to
// satisfy (listed in evidence.assumptions): push appends one byte, extend_from_slice appends the slice.
pub trait KeyBuffer {
    spec fn view(&self) -> Seq<u8>;
    fn push(&mut self, byte: u8)
        ensures final(self).view() == old(self).view().push(byte);
    fn extend_from_slice(&mut self, bytes: &[u8])
        ensures final(self).view() == old(self).view() + bytes@;
}

// ------------------------------------------------------------------------------------------------
// specification (from the module documentation: 0x00 -> 00 FF, 0xFF -> FF 00, terminator 00 00)
// ------------------------------------------------------------------------------------------------
pub open spec fn esc_byte(b: u8) -> Seq<u8> {
    if b == 0x00 { seq![0x00u8, 0xFFu8] } else if b == 0xFF { seq![0xFFu8, 0x00u8] } else { seq![b] }
}

pub open spec fn esc_body(s: Seq<u8>) -> Seq<u8>
    decreases s.len()
{
    if s.len() == 0 { Seq::empty() } else { esc_byte(s[0]) + esc_body(s.skip(1)) }
}

pub open spec fn esc(s: Seq<u8>) -> Seq<u8> { esc_body(s) + seq![0x00u8, 0x00u8] }

/// spec-level parser mirroring the documented format
pub open spec fn dec_from(data: Seq<u8>, i: int, acc: Seq<u8>) -> Option<(Seq<u8>, int)>
    decreases data.len() - i
{
    if i < 0 || i >= data.len() { None }
    else if data[i] == 0x00 {
        if i + 1 >= data.len() { None }
        else if data[i + 1] == 0x00 { Some((acc, i + 2)) }
        else if data[i + 1] == 0xFF { dec_from(data, i + 2, acc.push(0x00u8)) }
        else { None }
    } else if data[i] == 0xFF {
        if i + 1 >= data.len() { None }
        else if data[i + 1] == 0x00 { dec_from(data, i + 2, acc.push(0xFFu8)) }
        else { None }
    } else { dec_from(data, i + 1, acc.push(data[i])) }
}

/// bytewise lexicographic "less than" (what memcmp + length tie-break computes)
pub open spec fn lex_lt(a: Seq<u8>, b: Seq<u8>) -> bool
    decreases a.len()
{
    if b.len() == 0 { false }
    else if a.len() == 0 { true }
    else if a[0] < b[0] { true }
    else if a[0] > b[0] { false }
    else { lex_lt(a.skip(1), b.skip(1)) }
}

// ------------------------------------------------------------------------------------------------
// lemmas
// ------------------------------------------------------------------------------------------------
proof fn lemma_esc_body_snoc(s: Seq<u8>, b: u8)
    ensures esc_body(s.push(b)) == esc_body(s) + esc_byte(b)
    decreases s.len()
{
    if s.len() == 0 {
        assert(s.push(b).skip(1) =~= Seq::<u8>::empty());
        assert(esc_body(s.push(b)) =~= esc_byte(b) + esc_body(Seq::<u8>::empty()));
        assert(esc_body(s.push(b)) =~= esc_body(s) + esc_byte(b));
    } else {
        assert(s.push(b).skip(1) =~= s.skip(1).push(b));
        lemma_esc_body_snoc(s.skip(1), b);
        assert(s.push(b)[0] == s[0]);
        assert(esc_body(s.push(b)) =~= esc_byte(s[0]) + (esc_body(s.skip(1)) + esc_byte(b)));
        assert(esc_body(s.push(b)) =~= esc_body(s) + esc_byte(b));
    }
}

proof fn lemma_dec_inverse(pre: Seq<u8>, s: Seq<u8>, rest: Seq<u8>, acc: Seq<u8>)
    ensures dec_from(pre + esc(s) + rest, pre.len() as int, acc) == Some((acc + s, (pre.len() + esc(s).len()) as int))
    decreases s.len()
{
    let data = pre + esc(s) + rest;
    let i = pre.len() as int;
    if s.len() == 0 {
        assert(esc(s) =~= seq![0x00u8, 0x00u8]);
        assert(data[i] == 0x00u8);
        assert(data[i + 1] == 0x00u8);
        assert(acc + s =~= acc);
    } else {
        let b = s[0];
        let t = s.skip(1);
        assert(esc(s) =~= esc_byte(b) + esc(t));
        let pre2 = pre + esc_byte(b);
        assert(data =~= pre2 + esc(t) + rest);
        lemma_dec_inverse(pre2, t, rest, acc.push(b));
        assert(acc.push(b) + t =~= acc + s);
        if b == 0x00 {
            assert(data[i] == 0x00u8 && data[i + 1] == 0xFFu8);
            assert(pre2.len() == i + 2);
        } else if b == 0xFF {
            assert(data[i] == 0xFFu8 && data[i + 1] == 0x00u8);
            assert(pre2.len() == i + 2);
        } else {
            assert(data[i] == b);
            assert(pre2.len() == i + 1);
        }
        assert(esc(s).len() == esc_byte(b).len() + esc(t).len());
    }
}

proof fn lemma_lex_common_prefix(p: Seq<u8>, a: Seq<u8>, b: Seq<u8>)
    ensures lex_lt(p + a, p + b) == lex_lt(a, b)
    decreases p.len()
{
    if p.len() == 0 {
        assert(p + a =~= a);
        assert(p + b =~= b);
    } else {
        assert((p + a).skip(1) =~= p.skip(1) + a);
        assert((p + b).skip(1) =~= p.skip(1) + b);
        assert((p + a)[0] == p[0] && (p + b)[0] == p[0]);
        lemma_lex_common_prefix(p.skip(1), a, b);
        if a.len() == 0 && b.len() == 0 {
        }
    }
}

/// value order ==> key order, with arbitrary bytes following each key (=> composite keys)
proof fn lemma_esc_order(s: Seq<u8>, t: Seq<u8>, x: Seq<u8>, y: Seq<u8>)
    requires lex_lt(s, t)
    ensures lex_lt(esc(s) + x, esc(t) + y)
    decreases s.len()
{
    reveal_with_fuel(lex_lt, 3);
    let ka = esc(s) + x;
    let kb = esc(t) + y;
    let t0 = t[0];
    assert(t.len() > 0);
    assert(ka.len() >= 2 && kb.len() >= 2);
    assert(esc(t) =~= esc_byte(t0) + esc(t.skip(1)));
    if s.len() == 0 {
        assert(esc(s) =~= seq![0x00u8, 0x00u8]);
        assert(ka[0] == 0x00u8 && ka[1] == 0x00u8);
        if t0 == 0x00 {
            assert(kb[0] == 0x00u8 && kb[1] == 0xFFu8);
            assert(ka.skip(1)[0] == 0x00u8 && kb.skip(1)[0] == 0xFFu8);
        } else if t0 == 0xFF {
            assert(kb[0] == 0xFFu8);
        } else {
            assert(kb[0] == t0);
        }
    } else {
        let s0 = s[0];
        assert(esc(s) =~= esc_byte(s0) + esc(s.skip(1)));
        if s0 < t0 {
            if s0 == 0x00 {
                assert(ka[0] == 0x00u8);
                assert(kb[0] == t0);
            } else {
                assert(ka[0] == s0);
                assert(kb[0] == t0);
            }
        } else {
            assert(s0 == t0);
            assert(lex_lt(s.skip(1), t.skip(1)));
            lemma_esc_order(s.skip(1), t.skip(1), x, y);
            let p = esc_byte(s0);
            assert(ka =~= p + (esc(s.skip(1)) + x));
            assert(kb =~= p + (esc(t.skip(1)) + y));
            lemma_lex_common_prefix(p, esc(s.skip(1)) + x, esc(t.skip(1)) + y);
        }
    }
}

/// the terminator makes encodings self-delimiting: equal values => equal keys (trivial) and the key of
/// s followed by anything is never below/above the key of s followed by anything else *because of s*
proof fn lemma_esc_equal_then_suffix_decides(s: Seq<u8>, x: Seq<u8>, y: Seq<u8>)
    ensures lex_lt(esc(s) + x, esc(s) + y) == lex_lt(x, y)
{
    lemma_lex_common_prefix(esc(s), x, y);
}

// ------------------------------------------------------------------------------------------------
// the real functions
// ------------------------------------------------------------------------------------------------
/*@@EXTRACT
file: src/encoding/key.rs
fn: encode_escaped_bytes
edit: after `fn encode_escaped_bytes<B: KeyBuffer>(data: &[u8], buf: &mut B)`
<<<
    ensures final(buf).view() == old(buf).view() + esc(data@)
>>>
edit: replace[ref_pattern] `for &byte in data {`
<<<
let ghost start = buf.view();
    for r in it: data
        invariant buf.view() == start + esc_body(data@.take(it.index as int))
    {
        let byte = *r;
        proof {
            let t = data@.take(it.index + 1);
            assert(t =~= data@.take(it.index as int).push(byte));
            lemma_esc_body_snoc(data@.take(it.index as int), byte);
        }
>>>
edit: before `    buf.push(0x00);\n    buf.push(0x00);\n}`
<<<
    proof { assert(data@.take(data@.len() as int) =~= data@); }
>>>
@@*/

/*@@EXTRACT
file: src/encoding/key.rs
fn: decode_escaped_bytes
edit: replace[eyre_result] `fn decode_escaped_bytes(data: &[u8]) -> Result<(Vec<u8>, usize)> {`
<<<
fn decode_escaped_bytes(data: &[u8]) -> (res: Result<(Vec<u8>, usize), VErr>)
    ensures
        match res {
            Ok((v, k)) => dec_from(data@, 0, Seq::<u8>::empty()) == Some((v@, k as int)),
            Err(_) => dec_from(data@, 0, Seq::<u8>::empty()).is_none(),
        }
{
>>>
edit: after `while i < data.len()`
<<<
        invariant
            i <= data.len(),
            dec_from(data@, i as int, result@) == dec_from(data@, 0, Seq::<u8>::empty()),
        decreases data.len() - i
>>>
@@*/

} // verus!
fn main() {}
