// C23 / C31 contracts for src/records/view.rs
use super::*;
use crate::verif_stubs as vs;
use crate::records::types::{ColumnDef, DataType};

//@ props=C23 kind=known finding=F-C23-2
/// KNOWN FINDING F-C23-2: RecordView getters on a record shorter than its schema requires must return an
/// error; they index `self.data[offset..offset + k]` / the null bitmap unchecked and panic
#[kani::proof]
#[kani::unwind(6)]
#[kani::stub(eyre::capture_handler, vs::capture_handler)]
#[kani::stub(eyre::private::new_adhoc, vs::new_adhoc)]
#[kani::stub(eyre::private::format_err, vs::format_err)]
#[kani::stub(alloc::fmt::format, vs::format)]
fn c23_known_record_view_short_record() {
    let schema = Schema::new(vec![ColumnDef::new("a", DataType::Int8)]);
    let bytes: [u8; 8] = kani::any();
    let len: usize = kani::any();
    kani::assume(len >= 2 && len <= 8);
    if let Some(v) = vs::is_ok_forget(RecordView::new(&bytes[..len], &schema)) {
        let _ = vs::is_ok_forget(v.get_int8(0)); // must be Ok or Err — Kani's bounds checks are the obligation
    }
    core::mem::forget(schema);
}
