// C33 (and C23) contracts for src/sql/row_serde.rs — child module of crate::sql::row_serde under cfg(kani).
use super::*;
use crate::verif_stubs as vs;
use std::borrow::Cow;

macro_rules! stubs {
    ($($item:item)*) => { $(
        #[kani::stub(eyre::capture_handler, vs::capture_handler)]
        #[kani::stub(eyre::private::new_adhoc, vs::new_adhoc)]
        #[kani::stub(eyre::private::format_err, vs::format_err)]
        #[kani::stub(alloc::fmt::format, vs::format)]
        $item
    )* };
}

/// proves `buf.len() == n`, then stores the same constant back as the length (no assumption made):
/// CBMC's symbolic execution then works with a concrete Vec length instead of a merged symbolic one.
fn pin_len(buf: &mut Vec<u8>, n: usize) {
    assert!(buf.len() == n);
    // SAFETY: n == buf.len() was just asserted
    unsafe { buf.set_len(n) };
}
/// proves `buf[i] == b`, then stores the same constant back
fn pin_byte(buf: &mut Vec<u8>, i: usize, b: u8) {
    assert!(buf[i] == b);
    buf[i] = b;
}

/// Serialise `v` after one arbitrary byte already in the buffer; prove bytes written == `size` ==
/// value_size(v) ("the computed size equals the bytes written"); append two arbitrary bytes ("what
/// follows"); prove the discriminant byte equals `disc`; then run the real decoder at offset 1.
/// `pin_*` keep the Vec length and the discriminant concrete for CBMC without assuming anything.
fn ser_then_de(v: &Value<'_>, disc: u8, size: usize) -> (Option<Value<'static>>, usize, usize) {
    let mut buf: Vec<u8> = Vec::with_capacity(64);
    buf.push(kani::any());
    RowSerde::serialize_value_into(v, &mut buf);
    assert!(RowSerde::value_size(v) == size);
    pin_len(&mut buf, 1 + size);
    let n = 1 + size;
    buf.push(kani::any());
    buf.push(kani::any());
    pin_byte(&mut buf, 1, disc);
    let mut off = 1usize;
    let r = vs::is_ok_forget(RowSerde::deserialize_value(&buf, &mut off));
    (r, off, n)
}

stubs! {
//@ props=C33 kind=proof
/// forall i: i64 (non-zero classes and zero): deserialize(serialize(Int(i)) ++ rest) == Int(i), consumes
/// exactly value_size bytes == bytes written
#[kani::proof]
#[kani::unwind(3)]
fn c33_int_roundtrip() {
    let i: i64 = kani::any();
    let v = Value::Int(i);
    let (r, off, n) = if i < 0 {
        ser_then_de(&v, discriminant::NEG_INT, 9)
    } else if i == 0 {
        ser_then_de(&v, discriminant::ZERO, 1)
    } else {
        ser_then_de(&v, discriminant::POS_INT, 9)
    };
    match r {
        Some(Value::Int(j)) => assert!(j == i && off == n),
        _ => assert!(false),
    }
}

//@ props=C33 kind=proof
/// forall f: f64 except ±0.0: deserialize(serialize(Float(f)) ++ rest) is Float with the same bits
/// (NaN: any NaN), consumes exactly value_size bytes.  (±0.0 is the separate obligation below.)
#[kani::proof]
#[kani::unwind(3)]
fn c33_float_roundtrip_nonzero() {
    let f: f64 = kani::any();
    kani::assume(f != 0.0);
    let v = Value::Float(f);
    if f.is_nan() {
        let (r, off, n) = ser_then_de(&v, discriminant::NAN, 1);
        match r { Some(Value::Float(g)) => assert!(g.is_nan() && off == n), _ => assert!(false) }
    } else if f == f64::NEG_INFINITY {
        let (r, off, n) = ser_then_de(&v, discriminant::NEG_INFINITY, 1);
        match r { Some(Value::Float(g)) => assert!(g == f && off == n), _ => assert!(false) }
    } else if f == f64::INFINITY {
        let (r, off, n) = ser_then_de(&v, discriminant::POS_INFINITY, 1);
        match r { Some(Value::Float(g)) => assert!(g == f && off == n), _ => assert!(false) }
    } else if f < 0.0 {
        let (r, off, n) = ser_then_de(&v, discriminant::NEG_FLOAT, 9);
        match r { Some(Value::Float(g)) => assert!(g.to_bits() == f.to_bits() && off == n), _ => assert!(false) }
    } else {
        let (r, off, n) = ser_then_de(&v, discriminant::POS_FLOAT, 9);
        match r { Some(Value::Float(g)) => assert!(g.to_bits() == f.to_bits() && off == n), _ => assert!(false) }
    }
}

//@ props=C33 kind=proof
/// Float(+0.0) and Float(-0.0) come back as a Float equal to zero ("an equal row of the same types"),
/// consuming exactly value_size bytes
#[kani::proof]
#[kani::unwind(3)]
fn c33_float_zero_keeps_type() {
    let neg: bool = kani::any();
    let f: f64 = if neg { -0.0 } else { 0.0 };
    let v = Value::Float(f);
    let mut buf: Vec<u8> = Vec::with_capacity(64);
    RowSerde::serialize_value_into(&v, &mut buf);
    let n = buf.len();
    assert!(n == RowSerde::value_size(&v));
    let d = buf[0];
    // the serializer may legitimately choose any discriminant; pin it per possible choice
    let mut off = 0usize;
    let r = if d == discriminant::ZERO {
        buf[0] = discriminant::ZERO;
        vs::is_ok_forget(RowSerde::deserialize_value(&buf, &mut off))
    } else if d == discriminant::POS_FLOAT {
        buf[0] = discriminant::POS_FLOAT;
        vs::is_ok_forget(RowSerde::deserialize_value(&buf, &mut off))
    } else if d == discriminant::NEG_FLOAT {
        buf[0] = discriminant::NEG_FLOAT;
        vs::is_ok_forget(RowSerde::deserialize_value(&buf, &mut off))
    } else {
        assert!(false);
        None
    };
    match r {
        Some(Value::Float(g)) => assert!(g == 0.0 && off == n),
        _ => assert!(false),
    }
}

//@ props=C33 kind=proof
/// Null, Uuid, MacAddr, Inet4, Inet6, TimestampTz, Interval, Enum, Decimal: all payloads round-trip
/// with the same variant; consumes exactly value_size bytes; bytes that follow are ignored
#[kani::proof]
#[kani::unwind(3)]
fn c33_fixed_variants_roundtrip() {
    let w: usize = kani::any(); // witness index into array payloads
    {
        let (r, off, n) = ser_then_de(&Value::Null, discriminant::NULL, 1);
        match r { Some(Value::Null) => assert!(off == n), _ => assert!(false) }
    }
    {
        let u: [u8; 16] = kani::any();
        let (r, off, n) = ser_then_de(&Value::Uuid(u), discriminant::UUID, 17);
        match r { Some(Value::Uuid(x)) => assert!(x[w % 16] == u[w % 16] && off == n), _ => assert!(false) }
    }
    {
        let m: [u8; 6] = kani::any();
        let (r, off, n) = ser_then_de(&Value::MacAddr(m), discriminant::MACADDR, 7);
        match r { Some(Value::MacAddr(x)) => assert!(x[w % 6] == m[w % 6] && off == n), _ => assert!(false) }
    }
    {
        let a: [u8; 4] = kani::any();
        let (r, off, n) = ser_then_de(&Value::Inet4(a), discriminant::INET4, 5);
        match r { Some(Value::Inet4(x)) => assert!(x[w % 4] == a[w % 4] && off == n), _ => assert!(false) }
    }
    {
        let a: [u8; 16] = kani::any();
        let (r, off, n) = ser_then_de(&Value::Inet6(a), discriminant::INET6, 17);
        match r { Some(Value::Inet6(x)) => assert!(x[w % 16] == a[w % 16] && off == n), _ => assert!(false) }
    }
    {
        let (mi, os): (i64, i32) = (kani::any(), kani::any());
        let (r, off, n) = ser_then_de(&Value::TimestampTz { micros: mi, offset_secs: os }, discriminant::TIMESTAMPTZ, 13);
        match r { Some(Value::TimestampTz { micros, offset_secs }) => assert!(micros == mi && offset_secs == os && off == n), _ => assert!(false) }
    }
    {
        let (mi, d, mo): (i64, i32, i32) = (kani::any(), kani::any(), kani::any());
        let (r, off, n) = ser_then_de(&Value::Interval { micros: mi, days: d, months: mo }, discriminant::INTERVAL, 17);
        match r { Some(Value::Interval { micros, days, months }) => assert!(micros == mi && days == d && months == mo && off == n), _ => assert!(false) }
    }
    {
        let (t, o): (u16, u16) = (kani::any(), kani::any());
        let (r, off, n) = ser_then_de(&Value::Enum { type_id: t, ordinal: o }, discriminant::ENUM, 5);
        match r { Some(Value::Enum { type_id, ordinal }) => assert!(type_id == t && ordinal == o && off == n), _ => assert!(false) }
    }
    {
        let (dg, sc): (i128, i16) = (kani::any(), kani::any());
        let (r, off, n) = ser_then_de(&Value::Decimal { digits: dg, scale: sc }, discriminant::DECIMAL, 19);
        match r { Some(Value::Decimal { digits, scale }) => assert!(digits == dg && scale == sc && off == n), _ => assert!(false) }
    }
}

//@ props=C33 kind=proof
/// Point, GeoBox, Circle: all f64 bit patterns round-trip bit-exactly with the same variant
#[kani::proof]
#[kani::unwind(3)]
fn c33_geo_variants_roundtrip() {
    let (a, b, c, d): (f64, f64, f64, f64) = (kani::any(), kani::any(), kani::any(), kani::any());
    {
        let (r, off, n) = ser_then_de(&Value::Point { x: a, y: b }, discriminant::POINT, 17);
        match r { Some(Value::Point { x, y }) => assert!(x.to_bits() == a.to_bits() && y.to_bits() == b.to_bits() && off == n), _ => assert!(false) }
    }
    {
        let (r, off, n) = ser_then_de(&Value::GeoBox { low: (a, b), high: (c, d) }, discriminant::GEOBOX, 33);
        match r {
            Some(Value::GeoBox { low, high }) => assert!(low.0.to_bits() == a.to_bits() && low.1.to_bits() == b.to_bits()
                && high.0.to_bits() == c.to_bits() && high.1.to_bits() == d.to_bits() && off == n),
            _ => assert!(false),
        }
    }
    {
        let (r, off, n) = ser_then_de(&Value::Circle { center: (a, b), radius: c }, discriminant::CIRCLE, 25);
        match r {
            Some(Value::Circle { center, radius }) => assert!(center.0.to_bits() == a.to_bits() && center.1.to_bits() == b.to_bits()
                && radius.to_bits() == c.to_bits() && off == n),
            _ => assert!(false),
        }
    }
}

}

/// var-len helper: like ser_then_de for a u32-length-prefixed variant with *concrete* payload length `l`
/// (`elem` = bytes per element); additionally pins the 4 length bytes (proved equal first).
fn ser_then_de_var(v: &Value<'_>, disc: u8, l: usize, elem: usize) -> (Option<Value<'static>>, usize, usize) {
    let size = 1 + 4 + l * elem;
    let mut buf: Vec<u8> = Vec::with_capacity(64);
    buf.push(kani::any());
    RowSerde::serialize_value_into(v, &mut buf);
    assert!(RowSerde::value_size(v) == size);
    pin_len(&mut buf, 1 + size);
    let n = 1 + size;
    buf.push(kani::any());
    buf.push(kani::any());
    pin_byte(&mut buf, 1, disc);
    let lb = (l as u32).to_be_bytes();
    pin_byte(&mut buf, 2, lb[0]);
    pin_byte(&mut buf, 3, lb[1]);
    pin_byte(&mut buf, 4, lb[2]);
    pin_byte(&mut buf, 5, lb[3]);
    let mut off = 1usize;
    let r = vs::is_ok_forget(RowSerde::deserialize_value(&buf, &mut off));
    (r, off, n)
}

stubs! {
//@ props=C33 kind=bounded bound="payload length 0, 1, 2 bytes" timeout=3000 tier=manual
/// Blob with payloads of length 0..=2 (all byte values): round-trip with the same variant, same length,
/// same bytes; consumes exactly value_size bytes == bytes written
#[kani::proof]
#[kani::unwind(4)]
fn c33_blob_roundtrip_len2() {
    let bytes: [u8; 2] = kani::any();
    let mut l = 0usize;
    while l <= 2 {
        let v = Value::Blob(Cow::Borrowed(&bytes[..l]));
        let (r, off, n) = ser_then_de_var(&v, discriminant::BLOB, l, 1);
        match r { Some(Value::Blob(x)) => { assert!(x.len() == l && off == n); if l > 0 { assert!(x[0] == bytes[0] && x[l - 1] == bytes[l - 1]); } core::mem::forget(x); } _ => assert!(false) }
        l += 1;
    }
}

//@ props=C33 kind=bounded bound="payload length 0, 1, 2 bytes" timeout=3000 tier=manual
/// Jsonb, same contract as Blob
#[kani::proof]
#[kani::unwind(4)]
fn c33_jsonb_roundtrip_len2() {
    let bytes: [u8; 2] = kani::any();
    let mut l = 0usize;
    while l <= 2 {
        let v = Value::Jsonb(Cow::Borrowed(&bytes[..l]));
        let (r, off, n) = ser_then_de_var(&v, discriminant::JSONB, l, 1);
        match r { Some(Value::Jsonb(x)) => { assert!(x.len() == l && off == n); if l > 0 { assert!(x[0] == bytes[0] && x[l - 1] == bytes[l - 1]); } core::mem::forget(x); } _ => assert!(false) }
        l += 1;
    }
}

//@ props=C33 kind=bounded bound="payload length 0, 1, 2 bytes" timeout=3000 tier=manual
/// ToastPointer, same contract as Blob
#[kani::proof]
#[kani::unwind(4)]
fn c33_toast_roundtrip_len2() {
    let bytes: [u8; 2] = kani::any();
    let mut l = 0usize;
    while l <= 2 {
        let v = Value::ToastPointer(Cow::Borrowed(&bytes[..l]));
        let (r, off, n) = ser_then_de_var(&v, discriminant::TOAST_POINTER, l, 1);
        match r { Some(Value::ToastPointer(x)) => { assert!(x.len() == l && off == n); if l > 0 { assert!(x[0] == bytes[0] && x[l - 1] == bytes[l - 1]); } core::mem::forget(x); } _ => assert!(false) }
        l += 1;
    }
}

//@ props=C33 kind=bounded bound="vector of 0, 1, 2 f32 elements"
/// Vector with 0..=2 elements (all f32 bit patterns): round-trips bit-exactly; consumes exactly value_size bytes
#[kani::proof]
#[kani::unwind(4)]
fn c33_vector_roundtrip_len2() {
    let fl: [f32; 2] = kani::any();
    let mut l = 0usize;
    while l <= 2 {
        let v = Value::Vector(Cow::Borrowed(&fl[..l]));
        let (r, off, n) = ser_then_de_var(&v, discriminant::VECTOR, l, 4);
        match r {
            Some(Value::Vector(x)) => {
                assert!(x.len() == l && off == n);
                if l > 0 { assert!(x[0].to_bits() == fl[0].to_bits() && x[l - 1].to_bits() == fl[l - 1].to_bits()); }
                core::mem::forget(x);
            }
            _ => assert!(false),
        }
        l += 1;
    }
}

//@ props=C33 kind=bounded bound="ASCII text of length 0, 1, 2" tier=manual timeout=3000
/// Text (0..=2 ASCII bytes): round-trips as Text with the same bytes; consumes exactly value_size bytes
#[kani::proof]
#[kani::unwind(6)]
fn c33_text_roundtrip_len2() {
    let bytes: [u8; 2] = kani::any();
    kani::assume(bytes[0] < 0x80 && bytes[1] < 0x80);
    let mut l = 0usize;
    while l <= 2 {
        let s: &str = match core::str::from_utf8(&bytes[..l]) { Ok(s) => s, Err(_) => { assert!(false); "" } };
        let v = Value::Text(Cow::Borrowed(s));
        let (r, off, n) = ser_then_de_var(&v, discriminant::TEXT, l, 1);
        match r { Some(Value::Text(x)) => { assert!(x.len() == l && off == n); if l > 0 { assert!(x.as_bytes()[0] == bytes[0] && x.as_bytes()[l - 1] == bytes[l - 1]); } core::mem::forget(x); } _ => assert!(false) }
        l += 1;
    }
}

}

/// row framing for concrete column counts (c1, c2): two rows in one buffer decode in order; the cursor
/// advances by exactly row_size(row) per row (including the empty row); cells are positive Ints / Null
fn row_seq(c1: usize, c2: usize) {
    let (a, b, c): (i64, i64, i64) = (kani::any(), kani::any(), kani::any());
    kani::assume(a > 0 && b > 0 && c > 0);
    let row1 = [Value::Int(a), Value::Int(b)];
    let row2 = [Value::Int(c), Value::Null];
    let mut buf: Vec<u8> = Vec::with_capacity(64);
    RowSerde::serialize_row_into(&row1[..c1], &mut buf);
    let n1 = 2 + 9 * c1;
    assert!(RowSerde::row_size(&row1[..c1]) == n1);
    pin_len(&mut buf, n1);
    RowSerde::serialize_row_into(&row2[..c2], &mut buf);
    let n2 = n1 + 2 + (if c2 >= 1 { 9 } else { 0 }) + (if c2 >= 2 { 1 } else { 0 });
    assert!(RowSerde::row_size(&row2[..c2]) == n2 - n1);
    pin_len(&mut buf, n2);
    // pin the column counts and discriminants (each proved equal first)
    pin_byte(&mut buf, 0, 0);
    pin_byte(&mut buf, 1, c1 as u8);
    if c1 >= 1 { pin_byte(&mut buf, 2, discriminant::POS_INT); }
    if c1 >= 2 { pin_byte(&mut buf, 11, discriminant::POS_INT); }
    pin_byte(&mut buf, n1, 0);
    pin_byte(&mut buf, n1 + 1, c2 as u8);
    if c2 >= 1 { pin_byte(&mut buf, n1 + 2, discriminant::POS_INT); }
    if c2 >= 2 { pin_byte(&mut buf, n1 + 11, discriminant::NULL); }
    let mut out: SmallVec<[Value<'static>; 16]> = SmallVec::new();
    let mut off = 0usize;
    let ok1 = vs::is_ok_forget(RowSerde::deserialize_row_into(&buf, &mut off, &mut out)).is_some();
    assert!(ok1);
    assert!(off == n1);
    assert!(out.len() == c1);
    if c1 >= 1 { match &out[0] { Value::Int(x) => assert!(*x == a), _ => assert!(false) } }
    if c1 >= 2 { match &out[1] { Value::Int(x) => assert!(*x == b), _ => assert!(false) } }
    let ok2 = vs::is_ok_forget(RowSerde::deserialize_row_into(&buf, &mut off, &mut out)).is_some();
    assert!(ok2);
    assert!(off == n2);
    assert!(out.len() == c2);
    if c2 >= 1 { match &out[0] { Value::Int(x) => assert!(*x == c), _ => assert!(false) } }
    if c2 >= 2 { match &out[1] { Value::Null => {}, _ => assert!(false) } }
    core::mem::forget(out);
}

stubs! {
//@ props=C33 kind=bounded bound="two rows per buffer with (0,2) columns" timeout=3000 tier=manual
/// row sequence: empty row then a 2-column row
#[kani::proof]
#[kani::unwind(4)]
fn c33_row_sequence_0_2() { row_seq(0, 2); }

//@ props=C33 kind=bounded bound="two rows per buffer with (2,1) columns" timeout=3000 tier=manual
/// row sequence: 2-column row then a 1-column row
#[kani::proof]
#[kani::unwind(4)]
fn c33_row_sequence_2_1() { row_seq(2, 1); }

//@ props=C33 kind=bounded bound="two rows per buffer with (1,0) columns"
/// row sequence: 1-column row then an empty row
#[kani::proof]
#[kani::unwind(4)]
fn c33_row_sequence_1_0() { row_seq(1, 0); }

//@ props=C33,C23 kind=proof
/// decoder safety: deserialize_value on arbitrary 20 bytes with a *fixed-width* discriminant (or an
/// unknown one), any length 0..=20, any offset: Ok with off' in (off, len], or Err; no panic / OOB /
/// overflow.  (u32-length-prefixed variants are the bounded obligation below.)
#[kani::proof]
#[kani::unwind(3)]
fn c23_deserialize_value_fixed_total() {
    let bytes: [u8; 20] = kani::any();
    let len: usize = kani::any();
    kani::assume(len <= 20);
    let off0: usize = kani::any();
    kani::assume(off0 <= 20);
    if off0 < len {
        let d = bytes[off0];
        kani::assume(!(d == discriminant::TEXT || d == discriminant::BLOB || d == discriminant::VECTOR
            || d == discriminant::JSONB || d == discriminant::TOAST_POINTER));
    }
    let mut off = off0;
    let r = vs::is_ok_forget(RowSerde::deserialize_value(&bytes[..len], &mut off));
    let ok = r.is_some();
    if let Some(v) = r {
        assert!(off > off0 && off <= len);
        core::mem::forget(v);
    }
    kani::cover!(ok);
    kani::cover!(!ok && off0 < len);
}
}

//@ props=C33 kind=mustfail
/// MUST FAIL (vacuity guard): "Int(i) never has the same serialised length as Null" is false for i == 0
#[kani::proof]
#[kani::unwind(3)]
fn c33_mustfail_int_float_distinct() {
    let i: i64 = kani::any();
    kani::assume(i >= -1 && i <= 1);
    let mut b1: Vec<u8> = Vec::with_capacity(16);
    let mut b2: Vec<u8> = Vec::with_capacity(16);
    RowSerde::serialize_value_into(&Value::Int(i), &mut b1);
    RowSerde::serialize_value_into(&Value::Null, &mut b2);
    assert!(b1.len() != b2.len());
}
