// C23 (decoder safety) contracts for src/btree/interior.rs — accessors on arbitrary page bytes
use super::*;
use crate::verif_stubs as vs;

#[repr(C, align(8))]
struct Pg([u8; PAGE_SIZE]);

//@ props=C23 kind=bounded small_pages=1 bound="PAGE_SIZE scaled to 256 bytes by cfg(kahflane_turdb_verif_small_pages); every page byte, index and probe key symbolic" timeout=900
/// InteriorNode on arbitrary page bytes: from_page returns Ok/Err; for any index slot_at / key_at return Ok or Err and never
/// panic, overflow or read outside the page (find_child is the separate thorough-tier obligation)
#[kani::proof]
#[kani::unwind(4)]
#[kani::stub(eyre::capture_handler, vs::capture_handler)]
#[kani::stub(eyre::private::new_adhoc, vs::new_adhoc)]
#[kani::stub(eyre::private::format_err, vs::format_err)]
#[kani::stub(alloc::fmt::format, vs::format)]
fn c23_interior_accessors_total() {
    let pg = Pg(kani::any());
    let idx: usize = kani::any();
    if let Some(node) = vs::is_ok_forget(InteriorNode::from_page(&pg.0[..])) {
        let _ = node.cell_count();
        let _ = node.right_child();
        let s = vs::is_ok_forget(node.slot_at(idx)).is_some();
        if let Some(k) = vs::is_ok_forget(node.key_at(idx)) { assert!(k.len() <= PAGE_SIZE); }
        kani::cover!(s);
    }
    let n: usize = kani::any();
    kani::assume(n < PAGE_SIZE);
    assert!(vs::is_ok_forget(InteriorNode::from_page(&pg.0[..n])).is_none());
}

//@ props=C23 kind=bounded small_pages=1 tier=manual timeout=3000 bound="PAGE_SIZE scaled to 256 bytes; probe key <= 3 bytes"
/// InteriorNode::find_child on arbitrary page bytes and any probe key: Ok or Err, terminates (binary search
/// bounded by cell_count: u16 => <= 17 iterations), never panics or reads outside the page
#[kani::proof]
#[kani::unwind(18)]
#[kani::stub(eyre::capture_handler, vs::capture_handler)]
#[kani::stub(eyre::private::new_adhoc, vs::new_adhoc)]
#[kani::stub(eyre::private::format_err, vs::format_err)]
#[kani::stub(alloc::fmt::format, vs::format)]
fn c23_interior_find_child_total() {
    let pg = Pg(kani::any());
    if let Some(node) = vs::is_ok_forget(InteriorNode::from_page(&pg.0[..])) {
        let pb: [u8; 3] = kani::any();
        let pl: usize = kani::any();
        kani::assume(pl <= 3);
        let _ = vs::is_ok_forget(node.find_child(&pb[..pl]));
    }
}
