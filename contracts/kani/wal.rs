// C23 contracts for src/storage/wal.rs — WAL frame header decoding (pure bit fields over arbitrary bytes)
use super::*;

//@ props=C23 kind=proof
/// a WAL frame header read from ANY 32 bytes decodes without panic: frame_type is Redo or Undo, the id
/// fields are masked into range; and the undo-frame packing round-trips: new_undo_frame(table, txn) reads
/// back as an Undo frame with the same (24-bit) table id and txn id, whatever the other fields are
#[kani::proof]
#[kani::unwind(2)]
fn c23_wal_frame_header_fields() {
    let raw: [u8; 32] = kani::any();
    let h = match WalFrameHeader::read_from_bytes(&raw[..]) { Ok(h) => h, Err(_) => { assert!(false); return; } };
    let t = h.frame_type();
    assert!(t == WalFrameType::Redo || t == WalFrameType::Undo);
    assert!(h.is_undo_frame() != h.is_redo_frame());
    assert!(h.actual_file_id() <= 0x00FF_FFFF_FFFF_FFFF);
    assert!(h.undo_table_id() <= 0x00FF_FFFF);
    let (table, txn): (u32, u32) = (kani::any(), kani::any());
    let u = WalFrameHeader::new_undo_frame(kani::any(), kani::any(), kani::any(), kani::any(), kani::any(), table, txn);
    assert!(u.is_undo_frame() && !u.is_redo_frame());
    assert!(u.undo_table_id() == (table & 0x00FF_FFFF));
    assert!(u.undo_txn_id() == txn);
    // a redo frame built from a file id keeps it (below the type byte)
    let fid: u64 = kani::any();
    kani::assume(fid <= 0x00FF_FFFF_FFFF_FFFF);
    let r = WalFrameHeader::new_with_file_id(kani::any(), kani::any(), kani::any(), kani::any(), kani::any(), fid);
    assert!(r.is_redo_frame() && r.actual_file_id() == fid);
}
