// C29 / C28 contracts for src/btree/leaf.rs — per-operation contracts on ONE leaf page (bounded):
// a well-formed leaf with <= 3 cells, keys and values of 1..=3 bytes, pages scaled to 256 bytes.
// Every page byte is symbolic; well-formedness is assumed through `wf_leaf`, the abstract view
// (ordered list of (key, value)) is read back through the real accessors key_at / value_at.
use super::*;
use crate::verif_stubs as vs;

const MAXC: usize = 3;   // cells
const MAXL: usize = 3;   // key / value bytes

#[repr(C, align(8))]
struct Pg([u8; PAGE_SIZE]);

fn hdr(pg: &Pg) -> (u8, usize, usize, usize, u8) {
    let h = PageHeader::from_bytes(&pg.0[..]).unwrap();
    (h.page_type() as u8, h.cell_count() as usize, h.free_start() as usize, h.free_end() as usize, h.frag_bytes())
}
/// (offset, key_len, prefix) of slot i read from the raw bytes
fn slot(pg: &Pg, i: usize) -> (usize, usize, [u8; 4]) {
    let o = LEAF_CONTENT_START + i * SLOT_SIZE;
    (u16::from_le_bytes([pg.0[o + 4], pg.0[o + 5]]) as usize, u16::from_le_bytes([pg.0[o + 6], pg.0[o + 7]]) as usize,
     [pg.0[o], pg.0[o + 1], pg.0[o + 2], pg.0[o + 3]])
}
fn key_less(pg: &Pg, a: (usize, usize), b: (usize, usize)) -> bool {
    // lexicographic a < b on page-resident keys of length <= MAXL
    let mut j = 0;
    while j < MAXL {
        if j >= a.1 { return j < b.1; }
        if j >= b.1 { return false; }
        if pg.0[a.0 + j] != pg.0[b.0 + j] { return pg.0[a.0 + j] < pg.0[b.0 + j]; }
        j += 1;
    }
    false
}
/// structural validity of one leaf page (the C29 clauses that concern a single node):
/// header type/counters, slot area and cell area inside the page and not overlapping, cells inside
/// [free_end, PAGE_SIZE) and pairwise disjoint, slot prefix == extract_prefix(key), keys strictly increasing
fn wf_leaf(pg: &Pg, max_cells: usize) -> bool {
    let (ty, n, fs, fe, _frag) = hdr(pg);
    if ty != PageType::BTreeLeaf as u8 || n > max_cells { return false; }
    if fs != LEAF_CONTENT_START + n * SLOT_SIZE || fs > fe || fe > PAGE_SIZE { return false; }
    let mut ok = true;
    let mut i = 0;
    while i < MAXC + 1 {
        if i < n {
            let (off, kl, pre) = slot(pg, i);
            if kl < 1 || kl > MAXL || off < fe || off + kl + 1 > PAGE_SIZE { return false; }
            let vl = pg.0[off + kl] as usize;           // 1-byte varint (values <= MAXL bytes)
            if vl < 1 || vl > MAXL || off + kl + 1 + vl > PAGE_SIZE { return false; }
            if pre != extract_prefix(&pg.0[off..off + kl]) { ok = false; }
            let end = off + kl + 1 + vl;
            let mut j = 0;
            while j < MAXC + 1 {
                if j < n && j != i {
                    let (o2, k2, _) = slot(pg, j);
                    if o2 + k2 + 1 <= PAGE_SIZE {
                        let e2 = o2 + k2 + 1 + pg.0[o2 + k2] as usize;
                        if !(end <= o2 || e2 <= off) { ok = false; }       // cells pairwise disjoint
                    }
                }
                j += 1;
            }
            if i + 1 < n {
                let (o2, k2, _) = slot(pg, i + 1);
                if k2 >= 1 && k2 <= MAXL && o2 + k2 <= PAGE_SIZE && !key_less(pg, (off, kl), (o2, k2)) { ok = false; }
            }
        }
        i += 1;
    }
    ok
}
/// entry i of the abstract view, read through the REAL accessors (key bytes, value bytes, lengths)
fn entry(pg: &Pg, i: usize) -> Option<([u8; MAXL], usize, [u8; MAXL], usize)> {
    let leaf = vs::is_ok_forget(LeafNode::from_page(&pg.0[..]))?;
    let k = vs::is_ok_forget(leaf.key_at(i))?;
    let v = vs::is_ok_forget(leaf.value_at(i))?;
    if k.len() > MAXL || v.len() > MAXL { return None; }
    let mut kb = [0u8; MAXL];
    let mut vb = [0u8; MAXL];
    let mut j = 0;
    while j < MAXL {
        if j < k.len() { kb[j] = k[j]; }
        if j < v.len() { vb[j] = v[j]; }
        j += 1;
    }
    Some((kb, k.len(), vb, v.len()))
}
fn any_kv() -> ([u8; MAXL], usize, [u8; MAXL], usize) {
    let (kb, vb): ([u8; MAXL], [u8; MAXL]) = (kani::any(), kani::any());
    let (kl, vl): (usize, usize) = (kani::any(), kani::any());
    kani::assume(kl >= 1 && kl <= MAXL && vl >= 1 && vl <= MAXL);
    (kb, kl, vb, vl)
}
fn key_cmp_page(pg: &Pg, i: usize, k: &[u8]) -> core::cmp::Ordering {
    let (off, kl, _) = slot(pg, i);
    let mut j = 0;
    while j < MAXL {
        if j >= kl || j >= k.len() { break; }
        if pg.0[off + j] != k[j] { return pg.0[off + j].cmp(&k[j]); }
        j += 1;
    }
    kl.cmp(&k.len())
}

macro_rules! stubs {
    ($($item:item)*) => { $(
        #[kani::stub(eyre::capture_handler, vs::capture_handler)]
        #[kani::stub(eyre::private::new_adhoc, vs::new_adhoc)]
        #[kani::stub(eyre::private::format_err, vs::format_err)]
        #[kani::stub(alloc::fmt::format, vs::format)]
        $item
    )* };
}

stubs! {
//@ props=C29,C28 kind=bounded small_pages=1 bound="one leaf page; PAGE_SIZE scaled to 256 bytes; <= 3 cells; keys/values 1..=3 bytes" timeout=1500
/// init: any page bytes become a well-formed empty leaf (base case of the page invariant)
#[kani::proof]
#[kani::unwind(6)]
fn c29_leaf_init_wf() {
    let mut pg = Pg(kani::any());
    let ok = vs::is_ok_forget(LeafNodeMut::init(&mut pg.0[..])).is_some();
    assert!(ok);
    assert!(wf_leaf(&pg, 0));
    let (_t, n, _fs, fe, frag) = hdr(&pg);
    assert!(n == 0 && fe == PAGE_SIZE && frag == 0);
}

//@ props=C29,C28 kind=bounded small_pages=1 bound="one leaf page; PAGE_SIZE scaled to 256 bytes; <= 3 cells; keys/values 1..=3 bytes" timeout=1500
/// insert_cell_at(key, value, pos) on an arbitrary well-formed leaf with n <= 2 cells, pos the ordered
/// position of a key not yet present: Ok => still well formed with n+1 cells, entry pos is (key, value),
/// every other entry keeps its key and value (witness index) and next_leaf is unchanged;
/// Err (not enough space) => the page is byte-for-byte unchanged (witness offset)
#[kani::proof]
#[kani::unwind(6)]
fn c29_insert_cell_at_step() {
    let mut pg = Pg(kani::any());
    kani::assume(wf_leaf(&pg, MAXC - 1));
    let (_t, n, _fs, _fe, _frag) = hdr(&pg);
    let (kb, kl, vb, vl) = any_kv();
    let pos: usize = kani::any();
    kani::assume(pos <= n);
    if pos > 0 { kani::assume(key_cmp_page(&pg, pos - 1, &kb[..kl]) == core::cmp::Ordering::Less); }
    if pos < n { kani::assume(key_cmp_page(&pg, pos, &kb[..kl]) == core::cmp::Ordering::Greater); }
    let w: usize = kani::any();          // witness entry of the NEW page
    kani::assume(w <= n);
    let old_w = if w < pos { entry(&pg, w) } else if w > pos { entry(&pg, w - 1) } else { None };
    let wo: usize = kani::any();
    kani::assume(wo < PAGE_SIZE);
    let byte_before = pg.0[wo];
    let next_before = PageHeader::from_bytes(&pg.0[..]).unwrap().next_leaf();
    let ok = {
        let mut leaf = match vs::is_ok_forget(LeafNodeMut::from_page(&mut pg.0[..])) { Some(l) => l, None => { assert!(false); return; } };
        vs::is_ok_forget(leaf.insert_cell_at(&kb[..kl], &vb[..vl], pos)).is_some()
    };
    if ok {
        assert!(wf_leaf(&pg, MAXC));
        assert!(hdr(&pg).1 == n + 1);
        assert!(PageHeader::from_bytes(&pg.0[..]).unwrap().next_leaf() == next_before);
        let e = entry(&pg, w);
        assert!(e.is_some());
        let (ek, ekl, ev, evl) = e.unwrap();
        if w == pos {
            assert!(ekl == kl && evl == vl);
            let j: usize = kani::any();
            kani::assume(j < MAXL);
            if j < kl { assert!(ek[j] == kb[j]); }
            if j < vl { assert!(ev[j] == vb[j]); }
        } else {
            assert!(old_w.is_some());
            let (ok_, okl, ov, ovl) = old_w.unwrap();
            assert!(ekl == okl && evl == ovl && ek == ok_ && ev == ov);
        }
    } else {
        assert!(pg.0[wo] == byte_before);
    }
    kani::cover!(ok);
    kani::cover!(!ok);
}

//@ props=C29,C28 kind=bounded small_pages=1 bound="one leaf page; PAGE_SIZE scaled to 256 bytes; <= 3 cells; keys/values 1..=3 bytes" timeout=1500
/// delete_cell(index) on an arbitrary well-formed leaf with 1..=3 cells (fragmentation below the
/// compaction threshold): Ok, still well formed with n-1 cells, entries before index unchanged, entries
/// after index shifted down by one with their key and value (witness index), next_leaf unchanged
#[kani::proof]
#[kani::unwind(6)]
fn c29_delete_cell_step() {
    let mut pg = Pg(kani::any());
    kani::assume(wf_leaf(&pg, MAXC));
    let (_t, n, _fs, _fe, frag) = hdr(&pg);
    kani::assume(n >= 1 && (frag as usize) + 2 * MAXL + 1 <= (PAGE_SIZE - LEAF_CONTENT_START) / 4);
    let idx: usize = kani::any();
    kani::assume(idx < n);
    let w: usize = kani::any();          // witness entry of the NEW page
    kani::assume(w + 1 < n);
    let old_w = if w < idx { entry(&pg, w) } else { entry(&pg, w + 1) };
    let next_before = PageHeader::from_bytes(&pg.0[..]).unwrap().next_leaf();
    let ok = {
        let mut leaf = match vs::is_ok_forget(LeafNodeMut::from_page(&mut pg.0[..])) { Some(l) => l, None => { assert!(false); return; } };
        vs::is_ok_forget(leaf.delete_cell(idx)).is_some()
    };
    assert!(ok);
    assert!(wf_leaf(&pg, MAXC));
    assert!(hdr(&pg).1 == n - 1);
    assert!(PageHeader::from_bytes(&pg.0[..]).unwrap().next_leaf() == next_before);
    if n >= 2 {
        let e = entry(&pg, w);
        assert!(e.is_some() && old_w.is_some());
        let (ek, ekl, ev, evl) = e.unwrap();
        let (ok_, okl, ov, ovl) = old_w.unwrap();
        assert!(ekl == okl && evl == ovl && ek == ok_ && ev == ov);
    }
    let out_of_range: usize = kani::any();
    kani::assume(out_of_range >= n - 1);
    assert!(entry(&pg, out_of_range).is_none());
}

//@ props=C29,C28 kind=bounded small_pages=1 bound="one leaf page; PAGE_SIZE scaled to 256 bytes; <= 3 cells; keys/values 1..=3 bytes" timeout=1500
/// update_cell_value_in_place(index, v) with |v| == old length: Ok, page stays well formed, entry index now
/// has value v and the same key, every other entry unchanged; with a different length: Err and no change
#[kani::proof]
#[kani::unwind(6)]
fn c29_update_value_in_place_step() {
    let mut pg = Pg(kani::any());
    kani::assume(wf_leaf(&pg, MAXC));
    let (_t, n, _fs, _fe, _frag) = hdr(&pg);
    kani::assume(n >= 1);
    let idx: usize = kani::any();
    kani::assume(idx < n);
    let (_kb, _kl, vb, vl) = any_kv();
    let old = entry(&pg, idx);
    let w: usize = kani::any();
    kani::assume(w < n && w != idx);
    let old_w = entry(&pg, w);
    let wo: usize = kani::any();
    kani::assume(wo < PAGE_SIZE);
    let byte_before = pg.0[wo];
    let ok = {
        let mut leaf = match vs::is_ok_forget(LeafNodeMut::from_page(&mut pg.0[..])) { Some(l) => l, None => { assert!(false); return; } };
        vs::is_ok_forget(leaf.update_cell_value_in_place(idx, &vb[..vl])).is_some()
    };
    assert!(old.is_some());
    let (okb, okl, _ovb, ovl) = old.unwrap();
    assert!(ok == (vl == ovl));
    if ok {
        assert!(wf_leaf(&pg, MAXC));
        let (ek, ekl, ev, evl) = entry(&pg, idx).unwrap();
        assert!(ekl == okl && ek == okb && evl == vl);
        let j: usize = kani::any();
        kani::assume(j < vl);
        assert!(ev[j] == vb[j]);
        if n >= 2 { assert!(entry(&pg, w) == old_w); }
    } else {
        assert!(pg.0[wo] == byte_before);
    }
}
}

//@ props=C29 kind=mustfail small_pages=1
/// MUST FAIL (vacuity guard): "delete_cell leaves the cell count unchanged"
#[kani::proof]
#[kani::unwind(6)]
#[kani::stub(eyre::capture_handler, vs::capture_handler)]
#[kani::stub(eyre::private::new_adhoc, vs::new_adhoc)]
#[kani::stub(eyre::private::format_err, vs::format_err)]
#[kani::stub(alloc::fmt::format, vs::format)]
fn c29_mustfail_delete_keeps_count() {
    let mut pg = Pg(kani::any());
    kani::assume(wf_leaf(&pg, 1));
    let (_t, n, _fs, _fe, frag) = hdr(&pg);
    kani::assume(n == 1 && frag == 0);
    {
        let mut leaf = match vs::is_ok_forget(LeafNodeMut::from_page(&mut pg.0[..])) { Some(l) => l, None => return };
        let _ = vs::is_ok_forget(leaf.delete_cell(0));
    }
    assert!(hdr(&pg).1 == 1);
}
