// C29 / C28 contracts for src/btree/leaf.rs — per-operation contracts on ONE leaf page (bounded):
// an arbitrary well-formed leaf with n <= 2 cells before the operation (n and the position operands are
// concrete per harness — case split — everything else is symbolic: every page byte, every cell offset,
// key/value lengths in 1..=2, fragmentation counter, next_leaf), pages scaled to 256 bytes.
// The abstract view (ordered list of (key, value)) is read back through the REAL accessors
// LeafNode::key_at / value_at; structural validity is checked on the raw bytes.
use super::*;
use crate::verif_stubs as vs;

const MAXL: usize = 2; // key / value bytes

#[repr(C, align(8))]
struct Pg([u8; PAGE_SIZE]);

#[derive(Clone, Copy)]
struct Cell { off: usize, kl: usize, vl: usize }
impl Cell {
    fn end(&self) -> usize { self.off + self.kl + 1 + self.vl }
}

fn wr16(pg: &mut Pg, o: usize, v: u16) { let b = v.to_le_bytes(); pg.0[o] = b[0]; pg.0[o + 1] = b[1]; }
fn rd16(pg: &Pg, o: usize) -> usize { u16::from_le_bytes([pg.0[o], pg.0[o + 1]]) as usize }

/// lexicographic a < b for keys of length <= MAXL given as (bytes, len)
fn key_lt(a: &[u8; MAXL], al: usize, b: &[u8; MAXL], bl: usize) -> bool {
    if al == 0 { return bl > 0; }
    if bl == 0 { return false; }
    if a[0] != b[0] { return a[0] < b[0]; }
    if al == 1 { return bl > 1; }
    if bl == 1 { return false; }
    a[1] < b[1]
}
fn key_of(pg: &Pg, c: &Cell) -> ([u8; MAXL], usize) {
    let mut k = [0u8; MAXL];
    k[0] = pg.0[c.off];
    if c.kl > 1 { k[1] = pg.0[c.off + 1]; }
    (k, c.kl)
}
fn val_of(pg: &Pg, c: &Cell) -> ([u8; MAXL], usize) {
    let mut v = [0u8; MAXL];
    let s = c.off + c.kl + 1;
    v[0] = pg.0[s];
    if c.vl > 1 { v[1] = pg.0[s + 1]; }
    (v, c.vl)
}

/// Builds an ARBITRARY well-formed leaf page with exactly `n` (<= 2) cells: arbitrary page bytes, then the
/// header, the slots and the value-length bytes are written from symbolic, constrained descriptors.
/// Every well-formed page with n cells of key/value length 1..=2 arises this way.
fn any_wf_leaf(n: usize) -> (Pg, [Cell; 2], usize, u8, u32) {
    let mut pg = Pg(kani::any());
    let fe: usize = kani::any();
    let frag: u8 = kani::any();
    let next: u32 = kani::any();
    let fs = LEAF_CONTENT_START + n * SLOT_SIZE;
    kani::assume(fe >= fs && fe <= PAGE_SIZE);
    let mut cells = [Cell { off: 0, kl: 1, vl: 1 }; 2];
    let mut i = 0;
    while i < 2 {
        if i < n {
            let c = Cell { off: kani::any(), kl: kani::any(), vl: kani::any() };
            kani::assume(c.kl >= 1 && c.kl <= MAXL && c.vl >= 1 && c.vl <= MAXL);
            kani::assume(c.off >= fe && c.off < PAGE_SIZE && c.end() <= PAGE_SIZE);
            cells[i] = c;
        }
        i += 1;
    }
    if n == 2 {
        kani::assume(cells[0].end() <= cells[1].off || cells[1].end() <= cells[0].off); // disjoint cells
    }
    // header
    {
        let h = PageHeader::from_bytes_mut(&mut pg.0[..]).unwrap();
        h.set_page_type(PageType::BTreeLeaf);
        h.set_cell_count(n as u16);
        h.set_free_start(fs as u16);
        h.set_free_end(fe as u16);
        h.set_frag_bytes(frag);
        h.set_next_leaf(next);
    }
    // value-length bytes, then slots (prefix taken from the symbolic key bytes)
    let mut i = 0;
    while i < 2 {
        if i < n {
            let c = cells[i];
            pg.0[c.off + c.kl] = c.vl as u8;
            let pre = extract_prefix(&pg.0[c.off..c.off + c.kl]);
            let o = LEAF_CONTENT_START + i * SLOT_SIZE;
            pg.0[o] = pre[0]; pg.0[o + 1] = pre[1]; pg.0[o + 2] = pre[2]; pg.0[o + 3] = pre[3];
            wr16(&mut pg, o + 4, c.off as u16);
            wr16(&mut pg, o + 6, c.kl as u16);
        }
        i += 1;
    }
    if n == 2 {
        let (k0, l0) = key_of(&pg, &cells[0]);
        let (k1, l1) = key_of(&pg, &cells[1]);
        kani::assume(key_lt(&k0, l0, &k1, l1)); // strictly increasing keys
    }
    (pg, cells, fe, frag, next)
}

/// structural validity of a leaf page with exactly `n` (<= 3) cells, on the raw bytes
fn wf_leaf(pg: &Pg, n: usize) -> bool {
    let h = PageHeader::from_bytes(&pg.0[..]).unwrap();
    if h.page_type() != PageType::BTreeLeaf || h.cell_count() as usize != n { return false; }
    let (fs, fe) = (h.free_start() as usize, h.free_end() as usize);
    if fs != LEAF_CONTENT_START + n * SLOT_SIZE || fs > fe || fe > PAGE_SIZE { return false; }
    let mut cs = [Cell { off: 0, kl: 0, vl: 0 }; 3];
    let mut i = 0;
    while i < 3 {
        if i < n {
            let o = LEAF_CONTENT_START + i * SLOT_SIZE;
            let off = rd16(pg, o + 4);
            let kl = rd16(pg, o + 6);
            if kl < 1 || kl > MAXL || off < fe || off + kl + 1 > PAGE_SIZE { return false; }
            let vl = pg.0[off + kl] as usize;
            if vl < 1 || vl > MAXL || off + kl + 1 + vl > PAGE_SIZE { return false; }
            let pre = extract_prefix(&pg.0[off..off + kl]);
            if pg.0[o] != pre[0] || pg.0[o + 1] != pre[1] || pg.0[o + 2] != pre[2] || pg.0[o + 3] != pre[3] { return false; }
            cs[i] = Cell { off, kl, vl };
        }
        i += 1;
    }
    let dis = |a: &Cell, b: &Cell| a.end() <= b.off || b.end() <= a.off;
    if n >= 2 && !dis(&cs[0], &cs[1]) { return false; }
    if n >= 3 && (!dis(&cs[0], &cs[2]) || !dis(&cs[1], &cs[2])) { return false; }
    if n >= 2 { let (a, al) = key_of(pg, &cs[0]); let (b, bl) = key_of(pg, &cs[1]); if !key_lt(&a, al, &b, bl) { return false; } }
    if n >= 3 { let (a, al) = key_of(pg, &cs[1]); let (b, bl) = key_of(pg, &cs[2]); if !key_lt(&a, al, &b, bl) { return false; } }
    true
}

/// entry i of the abstract view, read through the REAL accessors
fn entry(pg: &Pg, i: usize) -> Option<([u8; MAXL], usize, [u8; MAXL], usize)> {
    let leaf = vs::is_ok_forget(LeafNode::from_page(&pg.0[..]))?;
    let k = vs::is_ok_forget(leaf.key_at(i))?;
    let v = vs::is_ok_forget(leaf.value_at(i))?;
    if k.len() > MAXL || v.len() > MAXL || k.is_empty() || v.is_empty() { return None; }
    let mut kb = [0u8; MAXL];
    let mut vb = [0u8; MAXL];
    kb[0] = k[0]; if k.len() > 1 { kb[1] = k[1]; }
    vb[0] = v[0]; if v.len() > 1 { vb[1] = v[1]; }
    Some((kb, k.len(), vb, v.len()))
}
fn same_entry(e: Option<([u8; MAXL], usize, [u8; MAXL], usize)>, k: &[u8; MAXL], kl: usize, v: &[u8; MAXL], vl: usize) -> bool {
    match e {
        Some((ek, ekl, ev, evl)) => ekl == kl && evl == vl && ek[0] == k[0] && (kl < 2 || ek[1] == k[1]) && ev[0] == v[0] && (vl < 2 || ev[1] == v[1]),
        None => false,
    }
}
/// new key / value with CONCRETE lengths (a symbolic-length copy_from_slice into the page costs CBMC > 48 GB)
fn any_kv(kl: usize, vl: usize) -> ([u8; MAXL], usize, [u8; MAXL], usize) {
    let (kb, vb): ([u8; MAXL], [u8; MAXL]) = (kani::any(), kani::any());
    (kb, kl, vb, vl)
}

/// insert_cell_at(key, value, pos) on an arbitrary well-formed leaf with n cells, pos the ordered position
/// of a key not yet present.  Ok => well formed with n+1 cells, entry pos is (key, value), the other entries
/// keep key and value in order, next_leaf unchanged.  Err (not enough space) => page unchanged (witness byte).
fn insert_case(n: usize, pos: usize, nkl: usize, nvl: usize) {
    let (mut pg, cells, _fe, _frag, next) = any_wf_leaf(n);
    assert!(wf_leaf(&pg, n));
    let (kb, kl, vb, vl) = any_kv(nkl, nvl);
    let old0 = if n >= 1 { (key_of(&pg, &cells[0]), val_of(&pg, &cells[0])) } else { (([0; MAXL], 0), ([0; MAXL], 0)) };
    let old1 = if n >= 2 { (key_of(&pg, &cells[1]), val_of(&pg, &cells[1])) } else { (([0; MAXL], 0), ([0; MAXL], 0)) };
    // caller's obligation: pos is where key belongs (strictly between its neighbours)
    if pos >= 1 { let (k, l) = if pos == 1 { old0.0 } else { old1.0 }; kani::assume(key_lt(&k, l, &kb, kl)); }
    if pos < n { let (k, l) = if pos == 0 { old0.0 } else { old1.0 }; kani::assume(key_lt(&kb, kl, &k, l)); }
    let wo: usize = kani::any();
    kani::assume(wo < PAGE_SIZE);
    let byte_before = pg.0[wo];
    let ok = {
        let mut leaf = match vs::is_ok_forget(LeafNodeMut::from_page(&mut pg.0[..])) { Some(l) => l, None => { assert!(false); return; } };
        vs::is_ok_forget(leaf.insert_cell_at(&kb[..kl], &vb[..vl], pos)).is_some()
    };
    if ok {
        assert!(wf_leaf(&pg, n + 1));
        assert!(PageHeader::from_bytes(&pg.0[..]).unwrap().next_leaf() == next);
        assert!(same_entry(entry(&pg, pos), &kb, kl, &vb, vl));
        if n >= 1 { let i = if pos == 0 { 1 } else { 0 }; assert!(same_entry(entry(&pg, i), &old0.0 .0, old0.0 .1, &old0.1 .0, old0.1 .1)); }
        if n >= 2 { let i = if pos <= 1 { 2 } else { 1 }; assert!(same_entry(entry(&pg, i), &old1.0 .0, old1.0 .1, &old1.1 .0, old1.1 .1)); }
        assert!(entry(&pg, n + 1).is_none());
    } else {
        assert!(pg.0[wo] == byte_before);
    }
    kani::cover!(ok);
    kani::cover!(!ok);
}

/// delete_cell(idx) on an arbitrary well-formed leaf with n >= 1 cells (fragmentation below the compaction
/// threshold, as in the shipped configuration where compaction is unreachable): Ok, well formed with n-1
/// cells, the other entry keeps its key and value, next_leaf unchanged
fn delete_case(n: usize, idx: usize) {
    let (mut pg, cells, _fe, frag, next) = any_wf_leaf(n);
    kani::assume((frag as usize) + 2 * MAXL + 1 <= (PAGE_SIZE - LEAF_CONTENT_START) / 4);
    let keep = if n == 2 { let c = &cells[1 - idx]; Some((key_of(&pg, c), val_of(&pg, c))) } else { None };
    let ok = {
        let mut leaf = match vs::is_ok_forget(LeafNodeMut::from_page(&mut pg.0[..])) { Some(l) => l, None => { assert!(false); return; } };
        vs::is_ok_forget(leaf.delete_cell(idx)).is_some()
    };
    assert!(ok);
    assert!(wf_leaf(&pg, n - 1));
    assert!(PageHeader::from_bytes(&pg.0[..]).unwrap().next_leaf() == next);
    if let Some((k, v)) = keep { assert!(same_entry(entry(&pg, 0), &k.0, k.1, &v.0, v.1)); }
    assert!(entry(&pg, n - 1).is_none());
}

/// update_cell_value_in_place(idx, v): Ok iff |v| equals the old value length; then the page stays well
/// formed, entry idx has the same key and value v, the other entry is unchanged; on Err nothing changes
fn update_case(n: usize, idx: usize, nvl: usize) {
    let (mut pg, cells, _fe, _frag, _next) = any_wf_leaf(n);
    let (_kb, _kl, vb, vl) = any_kv(1, nvl);
    let (k_old, _v_old) = (key_of(&pg, &cells[idx]), val_of(&pg, &cells[idx]));
    let other = if n == 2 { let c = &cells[1 - idx]; Some((key_of(&pg, c), val_of(&pg, c))) } else { None };
    let wo: usize = kani::any();
    kani::assume(wo < PAGE_SIZE);
    let byte_before = pg.0[wo];
    let ok = {
        let mut leaf = match vs::is_ok_forget(LeafNodeMut::from_page(&mut pg.0[..])) { Some(l) => l, None => { assert!(false); return; } };
        vs::is_ok_forget(leaf.update_cell_value_in_place(idx, &vb[..vl])).is_some()
    };
    assert!(ok == (vl == cells[idx].vl));
    if ok {
        assert!(wf_leaf(&pg, n));
        assert!(same_entry(entry(&pg, idx), &k_old.0, k_old.1, &vb, vl));
        if let Some((k, v)) = other { assert!(same_entry(entry(&pg, 1 - idx), &k.0, k.1, &v.0, v.1)); }
    } else {
        assert!(pg.0[wo] == byte_before);
    }
}

macro_rules! leaf_h {
    ($name:ident, $body:expr) => {
        //@ props=C29,C28 kind=bounded small_pages=1 bound="one leaf page; PAGE_SIZE scaled to 256 bytes; <= 2 cells before the operation (case split on cell count and position); keys/values 1..=2 bytes" timeout=1500
        /// per-operation contract on one arbitrary well-formed leaf page (see insert_case / delete_case /
        /// update_case): structural validity is preserved and exactly the addressed entry changes
        #[kani::proof]
        #[kani::stub(eyre::capture_handler, vs::capture_handler)]
        #[kani::stub(eyre::private::new_adhoc, vs::new_adhoc)]
        #[kani::stub(eyre::private::format_err, vs::format_err)]
        #[kani::stub(alloc::fmt::format, vs::format)]
        #[kani::unwind(5)]
        fn $name() { $body; }
    };
}
leaf_h!(c29_insert_n0_p0_k1v1, insert_case(0, 0, 1, 1));
leaf_h!(c29_insert_n1_p0_k2v1, insert_case(1, 0, 2, 1));
leaf_h!(c29_insert_n1_p1_k1v2, insert_case(1, 1, 1, 2));
leaf_h!(c29_insert_n2_p0_k1v1, insert_case(2, 0, 1, 1));
leaf_h!(c29_insert_n2_p1_k2v2, insert_case(2, 1, 2, 2));
leaf_h!(c29_insert_n2_p2_k2v1, insert_case(2, 2, 2, 1));
leaf_h!(c29_delete_n1_i0, delete_case(1, 0));
leaf_h!(c29_delete_n2_i0, delete_case(2, 0));
leaf_h!(c29_delete_n2_i1, delete_case(2, 1));
leaf_h!(c29_update_n1_i0_v1, update_case(1, 0, 1));
leaf_h!(c29_update_n2_i1_v2, update_case(2, 1, 2));

//@ props=C29,C28 kind=bounded small_pages=1 bound="PAGE_SIZE scaled to 256 bytes"
/// init: any page bytes become a well-formed empty leaf (base case of the page invariant)
#[kani::proof]
#[kani::stub(eyre::capture_handler, vs::capture_handler)]
#[kani::stub(eyre::private::new_adhoc, vs::new_adhoc)]
#[kani::stub(eyre::private::format_err, vs::format_err)]
#[kani::stub(alloc::fmt::format, vs::format)]
#[kani::unwind(5)]
fn c29_leaf_init_wf() {
    let mut pg = Pg(kani::any());
    let ok = vs::is_ok_forget(LeafNodeMut::init(&mut pg.0[..])).is_some();
    assert!(ok);
    assert!(wf_leaf(&pg, 0));
    let h = PageHeader::from_bytes(&pg.0[..]).unwrap();
    assert!(h.free_end() as usize == PAGE_SIZE && h.frag_bytes() == 0 && h.next_leaf() == 0);
}

//@ props=C29 kind=mustfail small_pages=1
/// MUST FAIL (vacuity guard): "delete_cell leaves the cell count unchanged"
#[kani::proof]
#[kani::stub(eyre::capture_handler, vs::capture_handler)]
#[kani::stub(eyre::private::new_adhoc, vs::new_adhoc)]
#[kani::stub(eyre::private::format_err, vs::format_err)]
#[kani::stub(alloc::fmt::format, vs::format)]
#[kani::unwind(5)]
fn c29_mustfail_delete_keeps_count() {
    let (mut pg, _cells, _fe, frag, _next) = any_wf_leaf(1);
    kani::assume(frag == 0);
    {
        let mut leaf = match vs::is_ok_forget(LeafNodeMut::from_page(&mut pg.0[..])) { Some(l) => l, None => return };
        let _ = vs::is_ok_forget(leaf.delete_cell(0));
    }
    assert!(wf_leaf(&pg, 1));
}
