// C23 contracts for src/storage/page.rs — page-header decoding and validate_page on arbitrary bytes
use super::*;
use crate::verif_stubs as vs;

#[repr(C, align(64))]
struct Pg([u8; crate::storage::PAGE_SIZE]);

//@ props=C23 kind=proof
/// PageHeader::from_bytes and validate_page on ANY bytes of ANY length 0..=PAGE_SIZE: Ok or Err, never a
/// panic / OOB; validate_page accepts only full-size pages whose header is all-zero or has a known type
/// and PAGE_HEADER_SIZE <= free_start <= free_end <= PAGE_SIZE
#[kani::proof]
#[kani::unwind(4)]
#[kani::stub(eyre::capture_handler, vs::capture_handler)]
#[kani::stub(eyre::private::new_adhoc, vs::new_adhoc)]
#[kani::stub(eyre::private::format_err, vs::format_err)]
#[kani::stub(alloc::fmt::format, vs::format)]
fn c23_page_header_total() {
    let pg = Pg(kani::any());
    let len: usize = kani::any();
    kani::assume(len <= crate::storage::PAGE_SIZE);
    let h = vs::is_ok_forget(PageHeader::from_bytes(&pg.0[..len]));
    assert!(h.is_some() == (len >= 16));
    let ok = vs::is_ok_forget(validate_page(&pg.0[..len])).is_some();
    if ok {
        assert!(len == crate::storage::PAGE_SIZE);
        let hd = h.unwrap();
        let zero = hd.free_start() == 0 && hd.free_end() == 0 && hd.cell_count() == 0;
        assert!(zero || (hd.free_start() >= 16 && hd.free_start() <= hd.free_end() && hd.free_end() as usize <= crate::storage::PAGE_SIZE));
    }
    kani::cover!(ok);
}
