// C26 contracts for src/database/database.rs — Database::encode_value_as_key (what the engine actually
// writes into index keys): for every scalar OwnedValue variant it appends exactly the documented
// single-column encoding of src/encoding/key.rs, so the order / injectivity / inverse theorems of the
// `key` unit and the composite-key lemma of the Verus unit apply to real index keys.
use super::*;
use crate::encoding::key::{self, KeyBuffer};

const CAP: usize = 24;
#[derive(Clone, Copy)]
struct FixBuf { b: [u8; CAP], n: usize }
impl FixBuf { fn new() -> Self { FixBuf { b: [0u8; CAP], n: 0 } } }
impl KeyBuffer for FixBuf {
    fn push(&mut self, byte: u8) { self.b[self.n] = byte; self.n += 1; }
    fn extend_from_slice(&mut self, bytes: &[u8]) {
        let l = bytes.len();
        self.b[self.n..self.n + l].copy_from_slice(bytes);
        self.n += l;
    }
}
fn same(a: &FixBuf, b: &FixBuf) -> bool {
    if a.n != b.n { return false; }
    let mut i = 0;
    let mut ok = true;
    while i < CAP { if i < a.n && a.b[i] != b.b[i] { ok = false; } i += 1; }
    ok
}

//@ props=C26 kind=proof timeout=900
/// encode_value_as_key(v) == the single-column encoder of v's type, for every payload of the scalar
/// variants Null, Bool, Int, Float, Date, Time, Timestamp, Uuid, Interval, Enum (u16 ids widen losslessly)
#[kani::proof]
#[kani::unwind(26)]
fn c26_value_as_key_scalars() {
    let (i, f): (i64, f64) = (kani::any(), kani::any());
    let (d, m): (i32, i32) = (kani::any(), kani::any());
    let u: [u8; 16] = kani::any();
    let (t, o): (u16, u16) = (kani::any(), kani::any());
    let bo: bool = kani::any();
    macro_rules! chk { ($v:expr, $enc:expr) => {{
        let (mut a, mut b) = (FixBuf::new(), FixBuf::new());
        let v: OwnedValue = $v;
        Database::encode_value_as_key(&v, &mut a);
        core::mem::forget(v);
        { let buf = &mut b; $enc(buf); }
        assert!(same(&a, &b));
    }}; }
    chk!(OwnedValue::Null, |b: &mut FixBuf| key::encode_null(b));
    chk!(OwnedValue::Bool(bo), |b: &mut FixBuf| key::encode_bool(bo, b));
    chk!(OwnedValue::Int(i), |b: &mut FixBuf| key::encode_int(i, b));
    chk!(OwnedValue::Float(f), |b: &mut FixBuf| key::encode_float(f, b));
    chk!(OwnedValue::Date(d), |b: &mut FixBuf| key::encode_date(d, b));
    chk!(OwnedValue::Time(i), |b: &mut FixBuf| key::encode_time(i, b));
    chk!(OwnedValue::Timestamp(i), |b: &mut FixBuf| key::encode_timestamp(i, b));
    chk!(OwnedValue::Uuid(u), |b: &mut FixBuf| key::encode_uuid(&u, b));
    chk!(OwnedValue::Interval(i, d, m), |b: &mut FixBuf| key::encode_interval(m, d, i, b));
    chk!(OwnedValue::Enum(t, o), |b: &mut FixBuf| key::encode_enum(t as u32, o as u32, b));
}

//@ props=C26 kind=known finding=F-C26-1
/// KNOWN FINDING F-C26-1: distinct TIMESTAMPTZ values must encode to distinct keys; the UTC offset (an i32
/// number of seconds) is truncated with `as i16`, so offsets that differ by 65536 s collide and offsets
/// above 32767 s (e.g. +10:00 = 36000 s) change sign in the key
#[kani::proof]
#[kani::unwind(26)]
fn c26_known_timestamptz_offset_truncated() {
    let micros: i64 = kani::any();
    let (o1, o2): (i32, i32) = (kani::any(), kani::any());
    kani::assume(o1 != o2 && o1 >= -50400 && o1 <= 50400 && o2 >= -50400 && o2 <= 50400); // real UTC offsets, in seconds
    let (mut a, mut b) = (FixBuf::new(), FixBuf::new());
    Database::encode_value_as_key(&OwnedValue::TimestampTz(micros, o1), &mut a);
    Database::encode_value_as_key(&OwnedValue::TimestampTz(micros, o2), &mut b);
    assert!(!same(&a, &b));
}
