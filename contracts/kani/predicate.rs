// C14 / C20 contracts for src/sql/predicate.rs — value-level kernels of CompiledPredicate
use super::*;
use crate::verif_stubs as vs;
use crate::sql::ast::{BinaryOperator as B, Expr, Literal, UnaryOperator as U};

/// The kernels under contract (`compare_values`, `eval_binary_op`, `eval_unary_op`, `value_to_bool`,
/// `eval_expr` on literal trees) take `&self` but read no field of CompiledPredicate.  The real constructor
/// cannot be compiled by Kani 0.68 (std/hashbrown RandomState -> internal compiler error, the same ICE as
/// eyre's backtrace capture), so the harness hands them a reference to storage that is never initialised,
/// never read through and never dropped.  Listed in evidence.assumptions.
struct P(core::mem::MaybeUninit<CompiledPredicate<'static>>);
impl core::ops::Deref for P {
    type Target = CompiledPredicate<'static>;
    fn deref(&self) -> &CompiledPredicate<'static> {
        // SAFETY (harness only): no field is read by the kernels under contract
        unsafe { &*self.0.as_ptr() }
    }
}
fn pred() -> P {
    P(core::mem::MaybeUninit::uninit())
}

/// SQL three-valued truth value
#[derive(Clone, Copy, PartialEq)]
enum T { True, False, Unknown }

fn any_scalar() -> Value<'static> {
    let w: u8 = kani::any();
    kani::assume(w < 3);
    match w { 0 => Value::Null, 1 => Value::Int(kani::any()), _ => Value::Float(kani::any()) }
}

/// oracle for a comparison: NULL on either side => UNKNOWN; Int/Int exact; otherwise IEEE on f64 with the
/// engine's documented Int->f64 coercion; NaN => not TRUE
fn cmp_oracle(l: &Value, op: B, r: &Value) -> T {
    let ord = match (l, r) {
        (Value::Null, _) | (_, Value::Null) => return T::Unknown,
        (Value::Int(a), Value::Int(b)) => Some(a.cmp(b)),
        (Value::Int(a), Value::Float(b)) => (*a as f64).partial_cmp(b),
        (Value::Float(a), Value::Int(b)) => a.partial_cmp(&(*b as f64)),
        (Value::Float(a), Value::Float(b)) => a.partial_cmp(b),
        _ => return T::Unknown,
    };
    use core::cmp::Ordering::*;
    let t = match (ord, op) {
        (None, B::NotEq) => true, // NaN <> x is TRUE under IEEE; not demanded either way (see harness)
        (None, _) => false,
        (Some(o), B::Eq) => o == Equal,
        (Some(o), B::NotEq) => o != Equal,
        (Some(o), B::Lt) => o == Less,
        (Some(o), B::LtEq) => o != Greater,
        (Some(o), B::Gt) => o == Greater,
        (Some(o), B::GtEq) => o != Less,
        _ => false,
    };
    if t { T::True } else { T::False }
}
fn any_cmp_op() -> B {
    let w: u8 = kani::any();
    kani::assume(w < 6);
    match w { 0 => B::Eq, 1 => B::NotEq, 2 => B::Lt, 3 => B::LtEq, 4 => B::Gt, _ => B::GtEq }
}

//@ props=C14 kind=proof
/// compare_values (the WHERE comparison kernel): returns true iff the comparison is TRUE under 3VL, for
/// all Int/Float/NULL operand pairs and all six operators — except the pair (NULL, NULL), which is the
/// known finding F-C14-1; a missing operand (None) is never TRUE
#[kani::proof]
#[kani::stub(eyre::capture_handler, vs::capture_handler)]
#[kani::stub(eyre::private::new_adhoc, vs::new_adhoc)]
#[kani::stub(eyre::private::format_err, vs::format_err)]
#[kani::stub(alloc::fmt::format, vs::format)]
#[kani::unwind(2)]
fn c14_compare_values_3vl() {
    let p = pred();
    let (l, r) = (any_scalar(), any_scalar());
    let op = any_cmp_op();
    kani::assume(!(matches!(l, Value::Null) && matches!(r, Value::Null)));
    let nan = matches!(l, Value::Float(f) if f.is_nan()) || matches!(r, Value::Float(f) if f.is_nan());
    let got = p.compare_values(&Some(l.clone()), &Some(r.clone()), &op);
    if !nan {
        assert!(got == (cmp_oracle(&l, op, &r) == T::True));
    } else {
        // NaN: "=, <, <=, >, >=" are never TRUE
        if op != B::NotEq { assert!(!got); }
    }
    assert!(!p.compare_values(&None, &Some(r.clone()), &op));
    assert!(!p.compare_values(&Some(l.clone()), &None, &op));
    core::mem::forget(p);
    kani::cover!(got);
}

//@ props=C14 kind=known finding=F-C14-1
/// KNOWN FINDING F-C14-1: NULL = NULL, NULL <= NULL, NULL >= NULL must not be TRUE
#[kani::proof]
#[kani::stub(eyre::capture_handler, vs::capture_handler)]
#[kani::stub(eyre::private::new_adhoc, vs::new_adhoc)]
#[kani::stub(eyre::private::format_err, vs::format_err)]
#[kani::stub(alloc::fmt::format, vs::format)]
#[kani::unwind(2)]
fn c14_known_null_eq_null() {
    let p = pred();
    let op = any_cmp_op();
    let got = p.compare_values(&Some(Value::Null), &Some(Value::Null), &op);
    core::mem::forget(p);
    assert!(!got);
}

fn kleene_and(a: T, b: T) -> T {
    if a == T::False || b == T::False { T::False } else if a == T::True && b == T::True { T::True } else { T::Unknown }
}
fn kleene_or(a: T, b: T) -> T {
    if a == T::True || b == T::True { T::True } else if a == T::False && b == T::False { T::False } else { T::Unknown }
}
fn any_truth() -> (Value<'static>, T) {
    let w: u8 = kani::any();
    kani::assume(w < 3);
    match w { 0 => (Value::Null, T::Unknown), 1 => (Value::Int(0), T::False), _ => (Value::Int(1), T::True) }
}
fn truth_of(v: &Option<Value>) -> T {
    match v { Some(Value::Int(0)) => T::False, Some(Value::Int(_)) => T::True, Some(Value::Null) | None => T::Unknown, _ => T::Unknown }
}

//@ props=C14 kind=proof
/// value-level AND / OR / NOT on operands in {NULL, FALSE(0), TRUE(1)}: the result is TRUE exactly when
/// the Kleene table says TRUE (what a filter needs); NOT maps TRUE<->FALSE and NULL to NULL
#[kani::proof]
#[kani::stub(eyre::capture_handler, vs::capture_handler)]
#[kani::stub(eyre::private::new_adhoc, vs::new_adhoc)]
#[kani::stub(eyre::private::format_err, vs::format_err)]
#[kani::stub(alloc::fmt::format, vs::format)]
#[kani::unwind(2)]
fn c14_connectives_true_iff_kleene_true() {
    let p = pred();
    let ((a, ta), (b, tb)) = (any_truth(), any_truth());
    let and = p.eval_binary_op(&a, &B::And, &b);
    let or = p.eval_binary_op(&a, &B::Or, &b);
    assert!((truth_of(&and) == T::True) == (kleene_and(ta, tb) == T::True));
    assert!((truth_of(&or) == T::True) == (kleene_or(ta, tb) == T::True));
    let not = p.eval_unary_op(&U::Not, &a);
    let expect = match ta { T::True => T::False, T::False => T::True, T::Unknown => T::Unknown };
    assert!(truth_of(&not) == expect);
    core::mem::forget(p);
}

//@ props=C14 kind=known finding=F-C14-2
/// KNOWN FINDING F-C14-2: select-list values of AND/OR must be the Kleene value (NULL AND TRUE = NULL,
/// NULL OR FALSE = NULL); the kernel returns 0 (FALSE) for every UNKNOWN result
#[kani::proof]
#[kani::stub(eyre::capture_handler, vs::capture_handler)]
#[kani::stub(eyre::private::new_adhoc, vs::new_adhoc)]
#[kani::stub(eyre::private::format_err, vs::format_err)]
#[kani::stub(alloc::fmt::format, vs::format)]
#[kani::unwind(2)]
fn c14_known_connectives_exact_3vl() {
    let p = pred();
    let ((a, ta), (b, tb)) = (any_truth(), any_truth());
    let and = p.eval_binary_op(&a, &B::And, &b);
    let or = p.eval_binary_op(&a, &B::Or, &b);
    let ok = truth_of(&and) == kleene_and(ta, tb) && truth_of(&or) == kleene_or(ta, tb);
    core::mem::forget(p);
    assert!(ok);
}

//@ props=C14 kind=bounded bound="boolean-literal expression trees of depth <= 1 (AND/OR over TRUE/FALSE literals)"
/// eval_expr (the row filter) on AND/OR trees over boolean literals returns the classical truth value
#[kani::proof]
#[kani::stub(eyre::capture_handler, vs::capture_handler)]
#[kani::stub(eyre::private::new_adhoc, vs::new_adhoc)]
#[kani::stub(eyre::private::format_err, vs::format_err)]
#[kani::stub(alloc::fmt::format, vs::format)]
#[kani::unwind(3)]
fn c14_eval_expr_and_or_literals() {
    let cells: [Value<'static>; 1] = [Value::Null];
    let row = ExecutorRow::new(&cells);
    let one = Expr::Literal(Literal::Boolean(true));
    let zero = Expr::Literal(Literal::Boolean(false));
    let (x, y): (bool, bool) = (kani::any(), kani::any());
    let l = if x { &one } else { &zero };
    let r = if y { &one } else { &zero };
    let and = Expr::BinaryOp { left: l, op: B::And, right: r };
    let or = Expr::BinaryOp { left: l, op: B::Or, right: r };
    let p = pred();
    assert!(p.eval_expr(&one, &row) && !p.eval_expr(&zero, &row));
    assert!(p.eval_expr(&and, &row) == (x && y));
    assert!(p.eval_expr(&or, &row) == (x || y));
    core::mem::forget(p);
}

//@ props=C14 kind=known finding=F-C14-3
/// KNOWN FINDING F-C14-3: eval_expr(NOT TRUE) must be false (eval_expr has no arm for NOT and answers
/// `true` for every expression kind it does not know)
#[kani::proof]
#[kani::stub(eyre::capture_handler, vs::capture_handler)]
#[kani::stub(eyre::private::new_adhoc, vs::new_adhoc)]
#[kani::stub(eyre::private::format_err, vs::format_err)]
#[kani::stub(alloc::fmt::format, vs::format)]
#[kani::unwind(3)]
fn c14_known_eval_expr_not() {
    let cells: [Value<'static>; 1] = [Value::Null];
    let row = ExecutorRow::new(&cells);
    let one = Expr::Literal(Literal::Boolean(true));
    let not_one = Expr::UnaryOp { op: U::Not, expr: &one };
    let p = pred();
    let a = p.eval_expr(&not_one, &row);
    core::mem::forget(p);
    assert!(!a);
}

//@ props=C14 kind=bounded bound="IS [NOT] NULL over the operand trees NULL, TRUE, NULL + TRUE (literal leaves)" timeout=900
/// IS NULL / IS NOT NULL: TRUE exactly when the operand evaluates to NULL — also when the operand is a
/// computed expression whose NULL is represented as `None` by this evaluator (NULL + TRUE); both as a
/// select-list value (eval_value) and as a filter (eval_expr); never UNKNOWN
#[kani::proof]
#[kani::stub(eyre::capture_handler, vs::capture_handler)]
#[kani::stub(eyre::private::new_adhoc, vs::new_adhoc)]
#[kani::stub(eyre::private::format_err, vs::format_err)]
#[kani::stub(alloc::fmt::format, vs::format)]
#[kani::unwind(8)]
fn c14_is_null_literal_trees() {
    let cells: [Value<'static>; 1] = [Value::Null];
    let row = ExecutorRow::new(&cells);
    let null = Expr::Literal(Literal::Null);
    let one = Expr::Literal(Literal::Boolean(true));
    let null_plus_one = Expr::BinaryOp { left: &null, op: B::Plus, right: &one };
    let p = pred();
    // all six (operand, negated) combinations, each with a CONCRETE expression tree (keeps CBMC's
    // symbolic execution inside the arms the tree uses)
    let mut which = 0u8;
    while which < 6 {
        let negated = which >= 3;
        let (operand, operand_is_null) = match which % 3 { 0 => (&null, true), 1 => (&one, false), _ => (&null_plus_one, true) };
        let e = Expr::IsNull { expr: operand, negated };
        let want = operand_is_null != negated;
        let v = p.eval_value(&e, &row);
        let f = p.eval_expr(&e, &row);
        assert!(matches!(v, Some(Value::Int(n)) if (n != 0) == want));
        assert!(f == want);
        which += 1;
    }
    core::mem::forget(p);
}

/// 3VL value of `x IN (a, b)` for operands in {FALSE(0), TRUE(1), NULL}: TRUE if x equals a non-NULL
/// element; UNKNOWN if x is NULL or (no match and some element is NULL); FALSE otherwise
fn in_oracle(x: Option<bool>, a: Option<bool>, b: Option<bool>) -> T {
    match x {
        None => T::Unknown,
        Some(v) => {
            if a == Some(v) || b == Some(v) { T::True } else if a.is_none() || b.is_none() { T::Unknown } else { T::False }
        }
    }
}
fn t_not(t: T) -> T { match t { T::True => T::False, T::False => T::True, T::Unknown => T::Unknown } }
fn lit(v: Option<bool>) -> Expr<'static> {
    match v { None => Expr::Literal(Literal::Null), Some(b) => Expr::Literal(Literal::Boolean(b)) }
}
fn dom(k: u8) -> Option<bool> { match k { 0 => Some(false), 1 => Some(true), _ => None } }

//@ props=C14 kind=bounded bound="x [NOT] IN (a, b) over literal operands in {FALSE, TRUE, NULL}: the 18 combinations without a NULL among the list elements and with a non-NULL x" timeout=900
/// [NOT] IN over literal trees (no NULL involved): the filter (eval_expr) and the select-list value
/// (eval_value) are TRUE exactly when SQL says TRUE
#[kani::proof]
#[kani::stub(eyre::capture_handler, vs::capture_handler)]
#[kani::stub(eyre::private::new_adhoc, vs::new_adhoc)]
#[kani::stub(eyre::private::format_err, vs::format_err)]
#[kani::stub(alloc::fmt::format, vs::format)]
#[kani::unwind(20)]
fn c14_in_list_literal_trees() {
    let cells: [Value<'static>; 1] = [Value::Null];
    let row = ExecutorRow::new(&cells);
    let p = pred();
    let mut code = 0u8;
    while code < 16 {
        // x, a, b in {FALSE, TRUE}; negated
        let (x, a, b, negated) = (dom(code & 1), dom((code >> 1) & 1), dom((code >> 2) & 1), (code >> 3) & 1 == 1);
        let (ex, ea, eb) = (lit(x), lit(a), lit(b));
        let items: [&Expr; 2] = [&ea, &eb];
        let e = Expr::InList { expr: &ex, negated, list: &items[..] };
        let want = if negated { t_not(in_oracle(x, a, b)) } else { in_oracle(x, a, b) };
        let f = p.eval_expr(&e, &row);
        let v = p.eval_value(&e, &row);
        assert!(f == (want == T::True));
        assert!((truth_of(&v) == T::True) == (want == T::True));
        code += 1;
    }
    core::mem::forget(p);
}

//@ props=C14 kind=known finding=F-C14-4
/// KNOWN FINDING F-C14-4: `x NOT IN (…, NULL)` without a match and `NULL NOT IN (…)` are UNKNOWN under SQL
/// and must not pass a filter; the evaluator answers TRUE
#[kani::proof]
#[kani::stub(eyre::capture_handler, vs::capture_handler)]
#[kani::stub(eyre::private::new_adhoc, vs::new_adhoc)]
#[kani::stub(eyre::private::format_err, vs::format_err)]
#[kani::stub(alloc::fmt::format, vs::format)]
#[kani::unwind(8)]
fn c14_known_not_in_with_null() {
    let cells: [Value<'static>; 1] = [Value::Null];
    let row = ExecutorRow::new(&cells);
    let p = pred();
    // TRUE NOT IN (FALSE, NULL)
    let (ex, ea, eb) = (lit(Some(true)), lit(Some(false)), lit(None));
    let items: [&Expr; 2] = [&ea, &eb];
    let e = Expr::InList { expr: &ex, negated: true, list: &items[..] };
    let f1 = p.eval_expr(&e, &row);
    // NULL NOT IN (FALSE, TRUE)
    let (ex2, ea2, eb2) = (lit(None), lit(Some(false)), lit(Some(true)));
    let items2: [&Expr; 2] = [&ea2, &eb2];
    let e2 = Expr::InList { expr: &ex2, negated: true, list: &items2[..] };
    let f2 = p.eval_expr(&e2, &row);
    core::mem::forget(p);
    assert!(!f1 && !f2);
}

//@ props=C14 kind=bounded bound="x IN (a, b) over literal operands x in {NULL, TRUE}, a in {FALSE, NULL}, b in {TRUE, NULL}: all 8 combinations" timeout=900
/// IN with NULL operands / NULL list elements: `NULL IN (…)` and `x IN (…, NULL)` without a match are UNKNOWN,
/// never TRUE, and a match is TRUE whatever NULLs the list holds (fixed defect F-C14-7: values_equal(NULL, NULL)
/// was true, so `WHERE x IN (5, NULL)` returned the rows whose x is NULL)
#[kani::proof]
#[kani::stub(eyre::capture_handler, vs::capture_handler)]
#[kani::stub(eyre::private::new_adhoc, vs::new_adhoc)]
#[kani::stub(eyre::private::format_err, vs::format_err)]
#[kani::stub(alloc::fmt::format, vs::format)]
#[kani::unwind(12)]
fn c14_in_list_null_operands() {
    let cells: [Value<'static>; 1] = [Value::Null];
    let row = ExecutorRow::new(&cells);
    let p = pred();
    let mut code = 0u8;
    while code < 8 {
        let x = if code & 1 == 0 { None } else { Some(true) };
        let a = if (code >> 1) & 1 == 0 { Some(false) } else { None };
        let b = if (code >> 2) & 1 == 0 { Some(true) } else { None };
        let (ex, ea, eb) = (lit(x), lit(a), lit(b));
        let items: [&Expr; 2] = [&ea, &eb];
        let e = Expr::InList { expr: &ex, negated: false, list: &items[..] };
        let want = in_oracle(x, a, b);
        let f = p.eval_expr(&e, &row);
        let v = p.eval_value(&e, &row);
        assert!(f == (want == T::True));
        assert!((truth_of(&v) == T::True) == (want == T::True));
        code += 1;
    }
    core::mem::forget(p);
}

//@ props=C14 kind=bounded bound="x [NOT] BETWEEN lo AND hi over literal operands in {FALSE(0), TRUE(1)}: all 16 combinations" timeout=900
/// [NOT] BETWEEN over non-NULL literal trees: TRUE exactly when lo <= x <= hi (resp. its negation)
#[kani::proof]
#[kani::stub(eyre::capture_handler, vs::capture_handler)]
#[kani::stub(eyre::private::new_adhoc, vs::new_adhoc)]
#[kani::stub(eyre::private::format_err, vs::format_err)]
#[kani::stub(alloc::fmt::format, vs::format)]
#[kani::unwind(20)]
fn c14_between_literal_trees() {
    let cells: [Value<'static>; 1] = [Value::Null];
    let row = ExecutorRow::new(&cells);
    let p = pred();
    let mut code = 0u8;
    while code < 16 {
        let (x, lo, hi, negated) = (code & 1 == 1, (code >> 1) & 1 == 1, (code >> 2) & 1 == 1, (code >> 3) & 1 == 1);
        let (ex, el, eh) = (lit(Some(x)), lit(Some(lo)), lit(Some(hi)));
        let e = Expr::Between { expr: &ex, negated, low: &el, high: &eh };
        let inside = (lo as u8) <= (x as u8) && (x as u8) <= (hi as u8);
        let want = inside != negated;
        assert!(p.eval_expr(&e, &row) == want);
        assert!((truth_of(&p.eval_value(&e, &row)) == T::True) == want);
        code += 1;
    }
    core::mem::forget(p);
}

//@ props=C14 kind=known finding=F-C14-5
/// KNOWN FINDING F-C14-5: `TRUE NOT BETWEEN FALSE AND NULL` is UNKNOWN under SQL (NOT (x >= lo AND x <= NULL)
/// with x >= lo) and must not pass a filter; the evaluator answers TRUE
#[kani::proof]
#[kani::stub(eyre::capture_handler, vs::capture_handler)]
#[kani::stub(eyre::private::new_adhoc, vs::new_adhoc)]
#[kani::stub(eyre::private::format_err, vs::format_err)]
#[kani::stub(alloc::fmt::format, vs::format)]
#[kani::unwind(8)]
fn c14_known_not_between_null_bound() {
    let cells: [Value<'static>; 1] = [Value::Null];
    let row = ExecutorRow::new(&cells);
    let p = pred();
    let (ex, el, eh) = (lit(Some(true)), lit(Some(false)), lit(None));
    let e = Expr::Between { expr: &ex, negated: true, low: &el, high: &eh };
    let f = p.eval_expr(&e, &row);
    core::mem::forget(p);
    assert!(!f);
}

//@ props=C14 kind=proof
/// the equality / ordering kernels behind IN and BETWEEN: value_cmp is None iff an operand is NULL and
/// otherwise the exact Int order / IEEE order with the documented Int -> f64 coercion; values_equal on
/// Int/Int is exact equality and a NULL equals nothing, not even NULL
#[kani::proof]
#[kani::stub(eyre::capture_handler, vs::capture_handler)]
#[kani::stub(eyre::private::new_adhoc, vs::new_adhoc)]
#[kani::stub(eyre::private::format_err, vs::format_err)]
#[kani::stub(alloc::fmt::format, vs::format)]
#[kani::unwind(2)]
fn c14_value_cmp_and_int_equality() {
    let p = pred();
    let (l, r) = (any_scalar(), any_scalar());
    let got = p.value_cmp(&l, &r);
    let want = match (&l, &r) {
        (Value::Null, _) | (_, Value::Null) => None,
        (Value::Int(a), Value::Int(b)) => Some(a.cmp(b)),
        (Value::Int(a), Value::Float(b)) => (*a as f64).partial_cmp(b),
        (Value::Float(a), Value::Int(b)) => a.partial_cmp(&(*b as f64)),
        (Value::Float(a), Value::Float(b)) => a.partial_cmp(b),
        _ => None,
    };
    assert!(got == want);
    let (i, j): (i64, i64) = (kani::any(), kani::any());
    assert!(p.values_equal(&Value::Int(i), &Value::Int(j)) == (i == j));
    assert!(!p.values_equal(&Value::Null, &Value::Int(i)) && !p.values_equal(&Value::Int(i), &Value::Null));
    assert!(!p.values_equal(&Value::Null, &Value::Null));
    core::mem::forget(p);
}

//@ props=C14 kind=proof
/// IN-list / CASE equality on numbers is SQL `=`: exact on floats and with the same Int -> f64 coercion as
/// the comparison operators (fixed defect F-C14-6: it used |x - y| < f64::EPSILON, so `1e-17 IN (0.0)` was
/// TRUE while `1e-17 = 0.0` was FALSE)
#[kani::proof]
#[kani::stub(eyre::capture_handler, vs::capture_handler)]
#[kani::stub(eyre::private::new_adhoc, vs::new_adhoc)]
#[kani::stub(eyre::private::format_err, vs::format_err)]
#[kani::stub(alloc::fmt::format, vs::format)]
#[kani::unwind(2)]
fn c14_in_list_numeric_equality_is_exact() {
    let p = pred();
    let (x, y): (f64, f64) = (kani::any(), kani::any());
    let i: i64 = kani::any();
    assert!(p.values_equal(&Value::Float(x), &Value::Float(y)) == (x == y));
    assert!(p.values_equal(&Value::Int(i), &Value::Float(y)) == ((i as f64) == y));
    assert!(p.values_equal(&Value::Float(x), &Value::Int(i)) == (x == (i as f64)));
    kani::cover!(x == y);
    kani::cover!((x != y) & (x == 0.0) & (y > 0.0) & (y < f64::EPSILON));
    core::mem::forget(p);
}

// ------------------------------------------------------------------------------------------------
// C20: integer arithmetic
// ------------------------------------------------------------------------------------------------
/// oracle: Rust's checked integer arithmetic (None = the mathematical result is not an i64, or division by zero)
fn exact(a: i64, op: B, b: i64) -> Option<i64> {
    match op {
        B::Plus => a.checked_add(b),
        B::Minus => a.checked_sub(b),
        B::Multiply => a.checked_mul(b),
        B::Divide => a.checked_div(b),
        _ => a.checked_rem(b),
    }
}

fn arith_case(op: B) {
    let p = pred();
    let (a, b): (i64, i64) = (kani::any(), kani::any());
    let e = exact(a, op, b);
    // this obligation covers the representable results; results that leave i64 are F-C20-1
    let div0 = b == 0 && (op == B::Divide || op == B::Modulo);
    kani::assume(e.is_some() || div0);
    let got = p.eval_binary_op(&Value::Int(a), &op, &Value::Int(b));
    if div0 {
        assert!(got.is_none()); // division / modulo by zero yields NULL
    } else {
        match (e, got) {
            (Some(v), Some(Value::Int(g))) => assert!(g == v),
            _ => assert!(false),
        }
    }
    // NULL in => NULL out (None is how this evaluator spells NULL for arithmetic)
    let n1 = p.eval_binary_op(&Value::Null, &op, &Value::Int(b));
    let n2 = p.eval_binary_op(&Value::Int(a), &op, &Value::Null);
    assert!(matches!(n1, None | Some(Value::Null)) && matches!(n2, None | Some(Value::Null)));
    core::mem::forget(p);
}

macro_rules! arith_harness {
    ($name:ident, $op:expr) => {
        //@ props=C20 kind=proof timeout=2400
        /// Int <op> Int over ALL i64 pairs whose mathematical result is an i64: the kernel returns exactly
        /// that result; division and modulo by zero return NULL; NULL in => NULL out
        #[kani::proof]
        #[kani::stub(eyre::capture_handler, vs::capture_handler)]
        #[kani::stub(eyre::private::new_adhoc, vs::new_adhoc)]
        #[kani::stub(eyre::private::format_err, vs::format_err)]
        #[kani::stub(alloc::fmt::format, vs::format)]
        #[kani::unwind(2)]
        fn $name() { arith_case($op); }
    };
}
arith_harness!(c20_int_add_exact, B::Plus);
arith_harness!(c20_int_sub_exact, B::Minus);
arith_harness!(c20_int_mul_exact, B::Multiply);
arith_harness!(c20_int_div_exact, B::Divide); //@tier=manual
arith_harness!(c20_int_mod_exact, B::Modulo); //@tier=manual

//@ props=C20 kind=proof
/// division and modulo by zero yield NULL for EVERY dividend (no division is executed), and NULL operands
/// yield NULL
#[kani::proof]
#[kani::stub(eyre::capture_handler, vs::capture_handler)]
#[kani::stub(eyre::private::new_adhoc, vs::new_adhoc)]
#[kani::stub(eyre::private::format_err, vs::format_err)]
#[kani::stub(alloc::fmt::format, vs::format)]
#[kani::unwind(2)]
fn c20_div_mod_by_zero_is_null() {
    let p = pred();
    let a: i64 = kani::any();
    assert!(p.eval_binary_op(&Value::Int(a), &B::Divide, &Value::Int(0)).is_none());
    assert!(p.eval_binary_op(&Value::Int(a), &B::Modulo, &Value::Int(0)).is_none());
    assert!(matches!(p.eval_binary_op(&Value::Null, &B::Divide, &Value::Int(a)), None | Some(Value::Null)));
    assert!(matches!(p.eval_binary_op(&Value::Int(a), &B::Modulo, &Value::Null), None | Some(Value::Null)));
    core::mem::forget(p);
}

//@ props=C20 kind=bounded tier=manual timeout=3000 bound="operands in -32768..=32767 (64-bit division equivalence over all i64: c20_int_div_exact / c20_int_mod_exact, also tier=manual — the SAT instance did not finish in 40 min)"
/// Int / Int and Int % Int (truncating, sign of the dividend) for 16-bit operands: exactly checked_div / checked_rem
#[kani::proof]
#[kani::stub(eyre::capture_handler, vs::capture_handler)]
#[kani::stub(eyre::private::new_adhoc, vs::new_adhoc)]
#[kani::stub(eyre::private::format_err, vs::format_err)]
#[kani::stub(alloc::fmt::format, vs::format)]
#[kani::unwind(2)]
fn c20_int_div_mod_small_operands() {
    let p = pred();
    let (a, b): (i16, i16) = (kani::any(), kani::any());
    kani::assume(b != 0);
    let (a, b) = (a as i64, b as i64);
    match p.eval_binary_op(&Value::Int(a), &B::Divide, &Value::Int(b)) { Some(Value::Int(q)) => assert!(Some(q) == a.checked_div(b)), _ => assert!(false) }
    match p.eval_binary_op(&Value::Int(a), &B::Modulo, &Value::Int(b)) { Some(Value::Int(r)) => assert!(Some(r) == a.checked_rem(b)), _ => assert!(false) }
    core::mem::forget(p);
}

//@ props=C20 kind=known finding=F-C20-1
/// KNOWN FINDING F-C20-1: integer overflow must be reported, not wrapped and not a crash: for all i64
/// a, b, `a + b` / `a - b` must return without an arithmetic-overflow panic (fails e.g. i64::MAX + 1; the
/// same holds for `*`, and for i64::MIN / -1 and i64::MIN % -1)
#[kani::proof]
#[kani::stub(eyre::capture_handler, vs::capture_handler)]
#[kani::stub(eyre::private::new_adhoc, vs::new_adhoc)]
#[kani::stub(eyre::private::format_err, vs::format_err)]
#[kani::stub(alloc::fmt::format, vs::format)]
#[kani::unwind(2)]
fn c20_known_int_overflow() {
    let p = pred();
    let (a, b): (i64, i64) = (kani::any(), kani::any());
    let minus: bool = kani::any();
    let op = if minus { B::Minus } else { B::Plus };
    let got = p.eval_binary_op(&Value::Int(a), &op, &Value::Int(b)); // Kani's overflow checks are the obligation
    if let (Some(v), Some(Value::Int(g))) = (exact(a, op, b), &got) {
        assert!(*g == v);
    }
    core::mem::forget(p);
}

//@ props=C20 kind=proof
/// shifts and unary minus: `a << b`, `a >> b` for 0 <= b < 64 are the machine shifts, any other shift
/// amount yields NULL; unary minus is exact except for i64::MIN (part of F-C20-1)
#[kani::proof]
#[kani::stub(eyre::capture_handler, vs::capture_handler)]
#[kani::stub(eyre::private::new_adhoc, vs::new_adhoc)]
#[kani::stub(eyre::private::format_err, vs::format_err)]
#[kani::stub(alloc::fmt::format, vs::format)]
#[kani::unwind(2)]
fn c20_shift_and_negate() {
    let p = pred();
    let (a, b): (i64, i64) = (kani::any(), kani::any());
    let l = p.eval_binary_op(&Value::Int(a), &B::LeftShift, &Value::Int(b));
    let r = p.eval_binary_op(&Value::Int(a), &B::RightShift, &Value::Int(b));
    if b >= 0 && b < 64 {
        assert!(matches!(l, Some(Value::Int(x)) if x == a.wrapping_shl(b as u32)));
        assert!(matches!(r, Some(Value::Int(x)) if x == a.wrapping_shr(b as u32)));
    } else {
        assert!(l.is_none() && r.is_none());
    }
    kani::assume(a != i64::MIN);
    assert!(matches!(p.eval_unary_op(&U::Minus, &Value::Int(a)), Some(Value::Int(x)) if x == -a));
    core::mem::forget(p);
}

//@ props=C14 kind=mustfail
/// MUST FAIL (vacuity guard): "every comparison with a NULL operand is TRUE"
#[kani::proof]
#[kani::stub(eyre::capture_handler, vs::capture_handler)]
#[kani::stub(eyre::private::new_adhoc, vs::new_adhoc)]
#[kani::stub(eyre::private::format_err, vs::format_err)]
#[kani::stub(alloc::fmt::format, vs::format)]
#[kani::unwind(2)]
fn c14_mustfail_null_cmp_true() {
    let p = pred();
    let i: i64 = kani::any();
    let got = p.compare_values(&Some(Value::Null), &Some(Value::Int(i)), &B::Eq);
    core::mem::forget(p);
    assert!(got);
}
