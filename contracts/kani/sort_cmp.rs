// C15 contracts for src/sql/executor.rs — SortExecutor::compare_values and LimitExecutor::next
use super::*;
use crate::verif_stubs as vs;
use std::cmp::Ordering;

/// arbitrary sort-key value over {NULL, Int, Float(non-NaN)}; `allow_float=false` restricts to {NULL, Int}
fn any_val(allow_float: bool) -> Value<'static> {
    let w: u8 = kani::any();
    kani::assume(w < 3);
    match w {
        0 => Value::Null,
        1 => Value::Int(kani::any()),
        _ => {
            kani::assume(allow_float);
            let f: f64 = kani::any();
            kani::assume(!f.is_nan());
            Value::Float(f)
        }
    }
}
fn same_type_or_null(a: &Value, b: &Value) -> bool {
    matches!((a, b), (Value::Null, _) | (_, Value::Null) | (Value::Int(_), Value::Int(_)) | (Value::Float(_), Value::Float(_)))
}

//@ props=C15 kind=proof
/// SortExecutor::compare_values on {NULL, Int, Float} keys of ONE type (+NULL): NULL sorts before every
/// non-NULL value, equals NULL; agrees with numeric order inside a type; antisymmetric and transitive —
/// i.e. a total preorder, which is what makes `sort_by` produce the ORDER BY order (DESC = reverse())
#[kani::proof]
#[kani::unwind(2)]
fn c15_sort_executor_cmp_total_preorder() {
    type S = SortExecutor<'static, DummyExec>;
    let (a, b, c) = (any_val(true), any_val(true), any_val(true));
    kani::assume(same_type_or_null(&a, &b) && same_type_or_null(&b, &c) && same_type_or_null(&a, &c));
    let ab = S::compare_values(&a, &b);
    let ba = S::compare_values(&b, &a);
    let bc = S::compare_values(&b, &c);
    let ac = S::compare_values(&a, &c);
    assert!(ab == ba.reverse());
    if ab != Ordering::Greater && bc != Ordering::Greater { assert!(ac != Ordering::Greater); }
    if ab == Ordering::Equal && bc == Ordering::Equal { assert!(ac == Ordering::Equal); }
    match (&a, &b) {
        (Value::Null, Value::Null) => assert!(ab == Ordering::Equal),
        (Value::Null, _) => assert!(ab == Ordering::Less),
        (_, Value::Null) => assert!(ab == Ordering::Greater),
        (Value::Int(x), Value::Int(y)) => assert!(ab == x.cmp(y)),
        (Value::Float(x), Value::Float(y)) => assert!(Some(ab) == x.partial_cmp(y)),
        _ => {}
    }
}

//@ props=C15 kind=known finding=F-C15-2
/// KNOWN FINDING F-C15-2: SortExecutor::compare_values must order Int against Float numerically (a sort
/// key mixing Int and Float values); it returns Equal for every mixed pair, which is not transitive
#[kani::proof]
#[kani::unwind(2)]
fn c15_known_sort_executor_mixed_numeric() {
    type S = SortExecutor<'static, DummyExec>;
    let i: i64 = kani::any();
    let f: f64 = kani::any();
    kani::assume(!f.is_nan() && i > -1000 && i < 1000);
    let c = S::compare_values(&Value::Int(i), &Value::Float(f));
    assert!(Some(c) == (i as f64).partial_cmp(&f));
}

/// environment side of the Executor trait for the Limit contract: row k is the one-column row [Int(k)]
/// for k < len, then None forever.  (Never instantiated by TurDB; 12 lines of harness code.)
pub struct DummyExec {
    pos: u64,
    len: u64,
    rows: &'static [[Value<'static>; 1]; 4],
}
impl<'a> Executor<'a> for DummyExec {
    fn open(&mut self) -> eyre::Result<()> { Ok(()) }
    fn next(&mut self) -> eyre::Result<Option<ExecutorRow<'a>>> {
        if self.pos < self.len {
            let r = ExecutorRow::new(&self.rows[(self.pos % 4) as usize][..]);
            self.pos += 1;
            Ok(Some(r))
        } else {
            Ok(None)
        }
    }
    fn close(&mut self) -> eyre::Result<()> { Ok(()) }
}
static ROWS: [[Value<'static>; 1]; 4] = [[Value::Int(0)], [Value::Int(1)], [Value::Int(2)], [Value::Int(3)]];

//@ props=C15 kind=proof
/// LimitExecutor::next step contract over an ARBITRARY executor state satisfying
/// Inv: skipped <= offset, returned <= limit, child position == skipped + returned (<= len), and
/// (skipped < offset ==> returned == 0).  One call with offset - skipped <= 2 pending skips:
/// emits row number offset+returned iff returned < limit and that row exists, otherwise None; Inv is kept.
/// By induction over calls the emitted sequence is exactly rows [offset, min(offset+limit, len)).
#[kani::proof]
#[kani::unwind(4)]
#[kani::stub(eyre::capture_handler, vs::capture_handler)]
#[kani::stub(eyre::private::new_adhoc, vs::new_adhoc)]
#[kani::stub(eyre::private::format_err, vs::format_err)]
#[kani::stub(alloc::fmt::format, vs::format)]
fn c15_limit_next_step() {
    let len: u64 = kani::any();
    let limit: Option<u64> = kani::any();
    let offset: Option<u64> = kani::any();
    let off = offset.unwrap_or(0);
    let (returned, skipped): (u64, u64) = (kani::any(), kani::any());
    kani::assume(len < u64::MAX / 4 && off < u64::MAX / 4 && returned < u64::MAX / 4);
    kani::assume(skipped <= off && off - skipped <= 2);          // at most 2 pending skips in this call
    if let Some(l) = limit { kani::assume(returned <= l); }
    if skipped < off { kani::assume(returned == 0); }
    let pos = skipped + returned;
    kani::assume(pos <= len);
    let child = DummyExec { pos, len, rows: &ROWS };
    let mut ex = LimitExecutor::new(child, limit, offset);
    ex.returned = returned;
    ex.skipped = skipped;
    let r = vs::is_ok_forget(ex.next());
    assert!(r.is_some()); // the child never errs, so neither does next()
    let emitted = r.unwrap();
    let want_index = off + returned; // index of the next row of the window
    let window_open = match limit { Some(l) => returned < l, None => true };
    if off > len {
        assert!(emitted.is_none());
    } else if window_open && want_index < len {
        match emitted {
            Some(row) => {
                // the row handed out is row number `want_index` of the child
                match row.get(0) { Some(Value::Int(k)) => assert!(*k as u64 == want_index % 4), _ => assert!(false) }
                assert!(ex.returned == returned + 1 && ex.skipped == off && ex.child.pos == want_index + 1);
            }
            None => assert!(false),
        }
    } else {
        assert!(emitted.is_none());
        assert!(ex.returned == returned);
    }
    // Inv preserved
    assert!(ex.skipped <= off);
    if let Some(l) = limit { assert!(ex.returned <= l); }
    kani::cover!(window_open && want_index < len && off - skipped == 2);
    kani::cover!(!window_open);
}

//@ props=C15 kind=mustfail
/// MUST FAIL (vacuity guard): "NULL sorts after integers"
#[kani::proof]
#[kani::unwind(2)]
fn c15_mustfail_null_last() {
    type S = SortExecutor<'static, DummyExec>;
    let i: i64 = kani::any();
    assert!(S::compare_values(&Value::Null, &Value::Int(i)) == Ordering::Greater);
}

//@ props=C15,C20 kind=proof timeout=900
/// sort-key expression arithmetic (`ORDER BY a - b`): eval_binary_op_standalone for + and - over every
/// Int/Float operand combination is the IEEE result with the documented Int -> f64 coercion, with the
/// operands in the written order (Float - Int is NOT Int - Float); Int op Int is exact when representable;
/// a NULL operand gives NULL
#[kani::proof]
#[kani::unwind(2)]
fn c15_sort_key_arithmetic_mixed() {
    use crate::sql::ast::BinaryOperator as B;
    let (i, j): (i64, i64) = (kani::any(), kani::any());
    let (f, g): (f64, f64) = (kani::any(), kani::any());
    // finite operands: CBMC's NaN check flags inf - inf (not a Rust panic; such a trace does not replay)
    kani::assume(f.is_finite() && g.is_finite());
    let same = |a: f64, b: f64| a.to_bits() == b.to_bits() || (a.is_nan() && b.is_nan());
    // Float - Int and Int - Float, Float + Int and Int + Float
    match eval_binary_op_standalone(&Value::Float(f), &B::Minus, &Value::Int(i)) { Value::Float(r) => assert!(same(r, f - i as f64)), _ => assert!(false) }
    match eval_binary_op_standalone(&Value::Int(i), &B::Minus, &Value::Float(f)) { Value::Float(r) => assert!(same(r, i as f64 - f)), _ => assert!(false) }
    match eval_binary_op_standalone(&Value::Float(f), &B::Plus, &Value::Int(i)) { Value::Float(r) => assert!(same(r, f + i as f64)), _ => assert!(false) }
    match eval_binary_op_standalone(&Value::Int(i), &B::Plus, &Value::Float(f)) { Value::Float(r) => assert!(same(r, i as f64 + f)), _ => assert!(false) }
    match eval_binary_op_standalone(&Value::Float(f), &B::Minus, &Value::Float(g)) { Value::Float(r) => assert!(same(r, f - g)), _ => assert!(false) }
    if let Some(d) = i.checked_sub(j) {
        match eval_binary_op_standalone(&Value::Int(i), &B::Minus, &Value::Int(j)) { Value::Int(r) => assert!(r == d), _ => assert!(false) }
    }
    assert!(matches!(eval_binary_op_standalone(&Value::Null, &B::Minus, &Value::Int(i)), Value::Null));
    assert!(matches!(eval_binary_op_standalone(&Value::Float(f), &B::Plus, &Value::Null), Value::Null));
}
