// C26 (and C23) contracts for src/encoding/key.rs — child module of crate::encoding::key under cfg(kani).
// The encoders are generic over `KeyBuffer`; the harness supplies a fixed-array KeyBuffer so that the
// *real generic bodies* are what CBMC executes (Vec/SmallVec impls of KeyBuffer are trusted, see evidence).
use super::*;
use crate::verif_stubs as vs;
use core::cmp::Ordering;

pub const CAP: usize = 24;

#[derive(Clone, Copy)]
pub struct FixBuf {
    pub b: [u8; CAP],
    pub n: usize,
}
impl FixBuf {
    pub fn new() -> Self {
        FixBuf { b: [0u8; CAP], n: 0 }
    }
    /// buffer whose unused tail is arbitrary (so that "decode ignores what follows" is part of the claim)
    pub fn with_arbitrary_tail() -> Self {
        FixBuf { b: kani::any(), n: 0 }
    }
}
impl KeyBuffer for FixBuf {
    fn push(&mut self, byte: u8) {
        self.b[self.n] = byte;
        self.n += 1;
    }
    fn extend_from_slice(&mut self, bytes: &[u8]) {
        let l = bytes.len();
        self.b[self.n..self.n + l].copy_from_slice(bytes);
        self.n += l;
    }
}

/// bytewise lexicographic comparison (= memcmp + length tie-break), written as a plain loop
pub fn lex(a: &FixBuf, b: &FixBuf) -> Ordering {
    let mut i = 0;
    while i < CAP {
        if i >= a.n || i >= b.n {
            break;
        }
        if a.b[i] < b.b[i] {
            return Ordering::Less;
        }
        if a.b[i] > b.b[i] {
            return Ordering::Greater;
        }
        i += 1;
    }
    a.n.cmp(&b.n)
}

macro_rules! stubs {
    ($($item:item)*) => { $(
        #[kani::stub(eyre::capture_handler, vs::capture_handler)]
        #[kani::stub(eyre::private::new_adhoc, vs::new_adhoc)]
        #[kani::stub(eyre::private::format_err, vs::format_err)]
        #[kani::stub(alloc::fmt::format, vs::format)]
        $item
    )* };
}

// ------------------------------------------------------------------------------------------------
// 1. fixed-width encoders: order + injectivity (Ordering equality gives both) — complete
// ------------------------------------------------------------------------------------------------

//@ props=C26 kind=proof
/// forall x,y: i64.  x.cmp(y) == lex(encode_int(x), encode_int(y))   (order + injectivity)
#[kani::proof]
#[kani::unwind(26)]
fn c26_int_order() {
    let (x, y): (i64, i64) = (kani::any(), kani::any());
    let (mut a, mut b) = (FixBuf::new(), FixBuf::new());
    encode_int(x, &mut a);
    encode_int(y, &mut b);
    assert!(lex(&a, &b) == x.cmp(&y));
    kani::cover!(x < 0 && y > 0);
    kani::cover!(x == 0);
}

//@ props=C26 kind=proof
/// forall x,y: f64 non-NaN.  IEEE order (with -0.0 == +0.0) == lex order of encode_float; NaN encodes
/// to the single NAN key, above +inf.
#[kani::proof]
#[kani::unwind(26)]
fn c26_float_order() {
    let (x, y): (f64, f64) = (kani::any(), kani::any());
    let (mut a, mut b) = (FixBuf::new(), FixBuf::new());
    encode_float(x, &mut a);
    encode_float(y, &mut b);
    let l = lex(&a, &b);
    if !x.is_nan() && !y.is_nan() {
        assert!(Some(l) == x.partial_cmp(&y));
    } else if x.is_nan() && y.is_nan() {
        assert!(l == Ordering::Equal);
    } else if x.is_nan() {
        assert!(l == Ordering::Greater);
    } else {
        assert!(l == Ordering::Less);
    }
    kani::cover!(x < 0.0 && y > 0.0);
    kani::cover!(x == f64::INFINITY && y.is_nan());
}

//@ props=C26 kind=proof
/// documented exception: encode_int(0) == encode_float(+0.0) == encode_float(-0.0) == [ZERO]
#[kani::proof]
#[kani::unwind(26)]
fn c26_zero_shared_key() {
    let (mut a, mut b, mut c) = (FixBuf::new(), FixBuf::new(), FixBuf::new());
    encode_int(0, &mut a);
    encode_float(0.0, &mut b);
    encode_float(-0.0, &mut c);
    assert!(a.n == 1 && a.b[0] == type_prefix::ZERO);
    assert!(lex(&a, &b) == Ordering::Equal && lex(&a, &c) == Ordering::Equal);
    // and it is the ONLY collision between an int and a float key
    let (x, f): (i64, f64) = (kani::any(), kani::any());
    let (mut p, mut q) = (FixBuf::new(), FixBuf::new());
    encode_int(x, &mut p);
    encode_float(f, &mut q);
    if lex(&p, &q) == Ordering::Equal {
        assert!(x == 0 && f == 0.0);
    }
}

//@ props=C26 kind=proof
/// forall x,y: i32 dates; i64 times; i64 timestamps: value order == key order
#[kani::proof]
#[kani::unwind(26)]
fn c26_date_time_timestamp_order() {
    let (x, y): (i32, i32) = (kani::any(), kani::any());
    let (mut a, mut b) = (FixBuf::new(), FixBuf::new());
    encode_date(x, &mut a);
    encode_date(y, &mut b);
    assert!(lex(&a, &b) == x.cmp(&y));
    let (s, t): (i64, i64) = (kani::any(), kani::any());
    let (mut c, mut d) = (FixBuf::new(), FixBuf::new());
    encode_time(s, &mut c);
    encode_time(t, &mut d);
    assert!(lex(&c, &d) == s.cmp(&t));
    let (mut e, mut f) = (FixBuf::new(), FixBuf::new());
    encode_timestamp(s, &mut e);
    encode_timestamp(t, &mut f);
    assert!(lex(&e, &f) == s.cmp(&t));
    kani::cover!(x < 0 && y > 0);
}

//@ props=C26 kind=proof
/// timestamptz: key order == (micros, tz_offset_mins) tuple order; interval: (months, days, micros) tuple order
#[kani::proof]
#[kani::unwind(26)]
fn c26_timestamptz_interval_order() {
    let (m1, m2): (i64, i64) = (kani::any(), kani::any());
    let (z1, z2): (i16, i16) = (kani::any(), kani::any());
    let (mut a, mut b) = (FixBuf::new(), FixBuf::new());
    encode_timestamptz(m1, z1, &mut a);
    encode_timestamptz(m2, z2, &mut b);
    assert!(lex(&a, &b) == (m1, z1).cmp(&(m2, z2)));
    let (mo1, mo2, d1, d2): (i32, i32, i32, i32) = (kani::any(), kani::any(), kani::any(), kani::any());
    let (mut c, mut d) = (FixBuf::new(), FixBuf::new());
    encode_interval(mo1, d1, m1, &mut c);
    encode_interval(mo2, d2, m2, &mut d);
    assert!(lex(&c, &d) == (mo1, d1, m1).cmp(&(mo2, d2, m2)));
    kani::cover!(m1 == m2 && z1 < z2);
}

//@ props=C26 kind=proof
/// bool, uuid, macaddr, enum: value order (false<true; bytewise; bytewise; (type_id, ordinal)) == key order
#[kani::proof]
#[kani::unwind(26)]
fn c26_bool_uuid_mac_enum_order() {
    let (p, q): (bool, bool) = (kani::any(), kani::any());
    let (mut a, mut b) = (FixBuf::new(), FixBuf::new());
    encode_bool(p, &mut a);
    encode_bool(q, &mut b);
    assert!(lex(&a, &b) == p.cmp(&q));
    let (u, v): ([u8; 16], [u8; 16]) = (kani::any(), kani::any());
    let (mut c, mut d) = (FixBuf::new(), FixBuf::new());
    encode_uuid(&u, &mut c);
    encode_uuid(&v, &mut d);
    // witness-index formulation of "bytewise order": first differing byte decides
    let i: usize = kani::any();
    kani::assume(i < 16);
    let mut same_before = true;
    let mut k = 0;
    while k < 16 {
        if k < i && u[k] != v[k] {
            same_before = false;
        }
        k += 1;
    }
    if same_before && u[i] != v[i] {
        assert!(lex(&c, &d) == u[i].cmp(&v[i]));
    }
    if u == v {
        assert!(lex(&c, &d) == Ordering::Equal);
    }
    let (m, n): ([u8; 6], [u8; 6]) = (kani::any(), kani::any());
    let (mut e, mut f) = (FixBuf::new(), FixBuf::new());
    encode_macaddr(&m, &mut e);
    encode_macaddr(&n, &mut f);
    assert!((lex(&e, &f) == Ordering::Equal) == (m == n));
    if m[0] != n[0] {
        assert!(lex(&e, &f) == m[0].cmp(&n[0]));
    }
    let (t1, o1, t2, o2): (u32, u32, u32, u32) = (kani::any(), kani::any(), kani::any(), kani::any());
    let (mut g, mut h) = (FixBuf::new(), FixBuf::new());
    encode_enum(t1, o1, &mut g);
    encode_enum(t2, o2, &mut h);
    assert!(lex(&g, &h) == (t1, o1).cmp(&(t2, o2)));
}

// ------------------------------------------------------------------------------------------------
// 2. inverse: decode_key(enc(x) ++ arbitrary suffix) == Ok((x, |enc(x)|))  — complete
//    (each class of the encoder's case split encodes *and* decodes inside its own branch, so that
//     CBMC sees a concrete prefix byte and never enters decode_key's recursive array/json arms)
// ------------------------------------------------------------------------------------------------

/// proves `a.b[0] == prefix && a.n == n`, then stores the same constants back (no assumption is made)
fn pin(a: &mut FixBuf, prefix: u8, n: usize) {
    assert!(a.b[0] == prefix);
    assert!(a.n == n);
    a.b[0] = prefix;
    a.n = n;
}
fn dec(a: &FixBuf) -> Option<(DecodedKey, usize)> {
    vs::is_ok_forget(decode_key(&a.b[..]))
}
fn dec_exact(a: &FixBuf) -> Option<(DecodedKey, usize)> {
    vs::is_ok_forget(decode_key(&a.b[..a.n]))
}

stubs! {
//@ props=C26 kind=proof
/// forall x: i64. decode_key(encode_int(x) ++ rest) == (Int(x), len), also on the exact-length slice
#[kani::proof]
#[kani::unwind(4)]
fn c26_int_inverse() {
    let x: i64 = kani::any();
    let mut a = FixBuf::with_arbitrary_tail();
    encode_int(x, &mut a);
    // `pin`: the prefix byte is proved equal to a constant and then re-written as that constant, so
    // that CBMC's symbolic execution sees a concrete byte and does not enter decode_key's recursive arms.
    if x < 0 {
        pin(&mut a, type_prefix::NEG_INT, 9);
        match dec(&a) { Some((DecodedKey::Int(v), k)) => assert!(v == x && k == 9), _ => assert!(false) }
        match dec_exact(&a) { Some((DecodedKey::Int(v), k)) => assert!(v == x && k == 9), _ => assert!(false) }
    } else if x == 0 {
        pin(&mut a, type_prefix::ZERO, 1);
        match dec(&a) { Some((DecodedKey::Int(v), k)) => assert!(v == x && k == 1), _ => assert!(false) }
        match dec_exact(&a) { Some((DecodedKey::Int(v), k)) => assert!(v == x && k == 1), _ => assert!(false) }
    } else {
        pin(&mut a, type_prefix::POS_INT, 9);
        match dec(&a) { Some((DecodedKey::Int(v), k)) => assert!(v == x && k == 9), _ => assert!(false) }
        match dec_exact(&a) { Some((DecodedKey::Int(v), k)) => assert!(v == x && k == 9), _ => assert!(false) }
    }
}

//@ props=C26 kind=proof
/// forall f: f64. decode_key(encode_float(f) ++ rest): Float(f) bit-exact for non-zero finite f; the
/// documented exceptions: ±0.0 -> Int(0); ±inf -> Neg/PosInfinity; NaN -> Nan
#[kani::proof]
#[kani::unwind(4)]
fn c26_float_inverse() {
    let f: f64 = kani::any();
    let mut a = FixBuf::with_arbitrary_tail();
    encode_float(f, &mut a);
    if f.is_nan() {
        pin(&mut a, type_prefix::NAN, 1);
        match dec(&a) { Some((DecodedKey::Nan, k)) => assert!(k == 1), _ => assert!(false) }
    } else if f == f64::NEG_INFINITY {
        pin(&mut a, type_prefix::NEG_INFINITY, 1);
        match dec(&a) { Some((DecodedKey::NegInfinity, k)) => assert!(k == 1), _ => assert!(false) }
    } else if f == f64::INFINITY {
        pin(&mut a, type_prefix::POS_INFINITY, 1);
        match dec(&a) { Some((DecodedKey::PosInfinity, k)) => assert!(k == 1), _ => assert!(false) }
    } else if f < 0.0 {
        pin(&mut a, type_prefix::NEG_FLOAT, 9);
        match dec(&a) { Some((DecodedKey::Float(v), k)) => assert!(v.to_bits() == f.to_bits() && k == 9), _ => assert!(false) }
    } else if f == 0.0 {
        pin(&mut a, type_prefix::ZERO, 1);
        match dec(&a) { Some((DecodedKey::Int(0), k)) => assert!(k == 1), _ => assert!(false) }
    } else {
        pin(&mut a, type_prefix::POS_FLOAT, 9);
        match dec(&a) { Some((DecodedKey::Float(v), k)) => assert!(v.to_bits() == f.to_bits() && k == 9), _ => assert!(false) }
    }
}

//@ props=C26 kind=proof
/// date/time/timestamp/timestamptz/interval/bool/null/uuid/macaddr/enum: decode_key(enc(x) ++ rest) == (x, len)
#[kani::proof]
#[kani::unwind(4)]
fn c26_fixed_inverse() {
    let (i, j): (i64, i32) = (kani::any(), kani::any());
    let (z, d): (i16, i32) = (kani::any(), kani::any());
    let u: [u8; 16] = kani::any();
    let m: [u8; 6] = kani::any();
    let (t, o): (u32, u32) = (kani::any(), kani::any());
    let bo: bool = kani::any();
    let w: usize = kani::any(); // witness index for array payloads
    {
        let mut a = FixBuf::with_arbitrary_tail();
        encode_date(j, &mut a);
        match dec(&a) { Some((DecodedKey::Date(v), k)) => assert!(v == j && k == a.n), _ => assert!(false) }
    }
    {
        let mut a = FixBuf::with_arbitrary_tail();
        encode_time(i, &mut a);
        match dec(&a) { Some((DecodedKey::Time(v), k)) => assert!(v == i && k == a.n), _ => assert!(false) }
    }
    {
        let mut a = FixBuf::with_arbitrary_tail();
        encode_timestamp(i, &mut a);
        match dec(&a) { Some((DecodedKey::Timestamp(v), k)) => assert!(v == i && k == a.n), _ => assert!(false) }
    }
    {
        let mut a = FixBuf::with_arbitrary_tail();
        encode_timestamptz(i, z, &mut a);
        match dec(&a) {
            Some((DecodedKey::TimestampTz { micros, tz_offset_mins }, k)) => assert!(micros == i && tz_offset_mins == z && k == a.n),
            _ => assert!(false),
        }
    }
    {
        let mut a = FixBuf::with_arbitrary_tail();
        encode_interval(j, d, i, &mut a);
        match dec(&a) {
            Some((DecodedKey::Interval { months, days, micros }, k)) => assert!(months == j && days == d && micros == i && k == a.n),
            _ => assert!(false),
        }
    }
    {
        let mut a = FixBuf::with_arbitrary_tail();
        if bo { encode_bool(true, &mut a); match dec(&a) { Some((DecodedKey::Bool(v), k)) => assert!(v && k == 1), _ => assert!(false) } }
        else { encode_bool(false, &mut a); match dec(&a) { Some((DecodedKey::Bool(v), k)) => assert!(!v && k == 1), _ => assert!(false) } }
    }
    {
        let mut a = FixBuf::with_arbitrary_tail();
        encode_null(&mut a);
        match dec(&a) { Some((DecodedKey::Null, k)) => assert!(k == a.n), _ => assert!(false) }
    }
    {
        let mut a = FixBuf::with_arbitrary_tail();
        encode_uuid(&u, &mut a);
        kani::assume(w < 16);
        match dec(&a) { Some((DecodedKey::Uuid(v), k)) => assert!(v[w] == u[w] && k == a.n), _ => assert!(false) }
    }
    {
        let mut a = FixBuf::with_arbitrary_tail();
        encode_macaddr(&m, &mut a);
        match dec(&a) { Some((DecodedKey::MacAddr(v), k)) => assert!(v[w % 6] == m[w % 6] && k == a.n), _ => assert!(false) }
    }
    {
        let mut a = FixBuf::with_arbitrary_tail();
        encode_enum(t, o, &mut a);
        match dec(&a) { Some((DecodedKey::Enum { type_id, ordinal }, k)) => assert!(type_id == t && ordinal == o && k == a.n), _ => assert!(false) }
    }
}
}

// ------------------------------------------------------------------------------------------------
// 3. documented prefix ranking and "first byte of every encoder is its type's documented prefix"
// ------------------------------------------------------------------------------------------------

/// documented rank of a key::Value variant: NULL < booleans < numbers < TEXT < BLOB < DATE < TIMESTAMP < UUID
fn rank(v: &Value) -> u8 {
    match v {
        Value::Null => 0,
        Value::Bool(_) => 1,
        Value::Int(_) | Value::Float(_) => 2,
        Value::Text(_) => 3,
        Value::Blob(_) => 4,
        Value::Date(_) => 5,
        Value::Timestamp(_) => 6,
        Value::Uuid(_) => 7,
    }
}

//@ props=C26 kind=proof
/// the documented chain of prefix constants (module docs "Type Prefix Scheme")
#[kani::proof]
#[kani::unwind(2)]
fn c26_prefix_chain() {
    use type_prefix::*;
    let chain = [
        NULL, FALSE, TRUE, NEG_INFINITY, NEG_BIG_INT, NEG_INT, NEG_FLOAT, ZERO, POS_FLOAT, POS_INT, POS_BIG_INT,
        POS_INFINITY, NAN, TEXT, BLOB, DATE, TIME, TIMESTAMP, TIMESTAMPTZ, INTERVAL, UUID, INET, MACADDR, JSON_NULL,
        JSON_FALSE, JSON_TRUE, JSON_NUMBER, JSON_STRING, JSON_ARRAY, JSON_OBJECT, ARRAY, TUPLE, RANGE, ENUM, COMPOSITE,
        DOMAIN, VECTOR, CUSTOM_START,
    ];
    let i: usize = kani::any();
    kani::assume(i < chain.len() - 1);
    assert!(chain[i] < chain[i + 1]);
    assert!(CUSTOM_START <= MAX_KEY && NULL > 0x00);
    // documented bands
    assert!(NULL == 0x01 && FALSE >= 0x02 && TRUE <= 0x03);
    assert!(NEG_INFINITY >= 0x10 && NAN <= 0x19 && TEXT >= 0x20 && BLOB <= 0x21);
    assert!(DATE >= 0x30 && INTERVAL <= 0x34 && UUID >= 0x40 && MACADDR <= 0x42);
    assert!(JSON_NULL >= 0x50 && JSON_OBJECT <= 0x56 && ARRAY >= 0x60 && DOMAIN <= 0x65 && VECTOR == 0x70);
}

//@ props=C26 kind=proof
/// cross-type order through the real dispatcher `encode_value`: values of differently-ranked types
/// compare by the documented type rank, whatever their payloads (scalars; text/blob with 0..=1 byte)
#[kani::proof]
#[kani::unwind(26)]
fn c26_cross_type_rank() {
    fn any_value<'a>(u: &'a [u8; 16], s: &'a str, bl: &'a [u8]) -> Value<'a> {
        let w: u8 = kani::any();
        kani::assume(w < 9);
        match w {
            0 => Value::Null,
            1 => Value::Bool(kani::any()),
            2 => Value::Int(kani::any()),
            3 => Value::Float(kani::any()),
            4 => Value::Text(s),
            5 => Value::Blob(bl),
            6 => Value::Date(kani::any()),
            7 => Value::Timestamp(kani::any()),
            _ => Value::Uuid(u),
        }
    }
    let (u1, u2): ([u8; 16], [u8; 16]) = (kani::any(), kani::any());
    let (b1, b2): ([u8; 1], [u8; 1]) = (kani::any(), kani::any());
    let (n1, n2): (usize, usize) = (kani::any(), kani::any());
    kani::assume(n1 <= 1 && n2 <= 1);
    let s1 = if n1 == 0 { "" } else { "\u{0}" };
    let s2 = if n2 == 0 { "" } else { "z" };
    let x = any_value(&u1, s1, &b1[..n1]);
    let y = any_value(&u2, s2, &b2[..n2]);
    let (mut a, mut b) = (FixBuf::new(), FixBuf::new());
    encode_value(&x, &mut a);
    encode_value(&y, &mut b);
    if rank(&x) != rank(&y) {
        assert!(lex(&a, &b) == rank(&x).cmp(&rank(&y)));
    }
    // every key starts with a byte >= NULL (> 0x00): needed by the composite-key lemma (no key byte 0 first)
    assert!(a.n >= 1 && a.b[0] >= type_prefix::NULL);
    kani::cover!(rank(&x) < rank(&y));
    kani::cover!(rank(&x) > rank(&y));
}

//@ props=C26 kind=proof
/// first byte of every fixed-width encoder is the documented prefix of its type, and its length is the
/// documented fixed length for that prefix (=> single-column encodings of fixed-width types are
/// prefix-free, the hypothesis of the composite-key lemma)
#[kani::proof]
#[kani::unwind(26)]
fn c26_first_byte_and_length() {
    use type_prefix::*;
    let i: i64 = kani::any();
    let mut a = FixBuf::new();
    encode_int(i, &mut a);
    assert!((i < 0 && a.b[0] == NEG_INT && a.n == 9) || (i == 0 && a.b[0] == ZERO && a.n == 1) || (i > 0 && a.b[0] == POS_INT && a.n == 9));
    let f: f64 = kani::any();
    let mut b = FixBuf::new();
    encode_float(f, &mut b);
    let p = b.b[0];
    assert!(p == NAN || p == NEG_INFINITY || p == POS_INFINITY || p == NEG_FLOAT || p == ZERO || p == POS_FLOAT);
    assert!(((p == NEG_FLOAT || p == POS_FLOAT) && b.n == 9) || ((p == NAN || p == NEG_INFINITY || p == POS_INFINITY || p == ZERO) && b.n == 1));
    let mut c = FixBuf::new();
    encode_date(kani::any(), &mut c);
    assert!(c.b[0] == DATE && c.n == 5);
    let mut d = FixBuf::new();
    encode_time(kani::any(), &mut d);
    assert!(d.b[0] == TIME && d.n == 9);
    let mut e = FixBuf::new();
    encode_timestamp(kani::any(), &mut e);
    assert!(e.b[0] == TIMESTAMP && e.n == 9);
    let mut g = FixBuf::new();
    encode_timestamptz(kani::any(), kani::any(), &mut g);
    assert!(g.b[0] == TIMESTAMPTZ && g.n == 11);
    let mut h = FixBuf::new();
    encode_interval(kani::any(), kani::any(), kani::any(), &mut h);
    assert!(h.b[0] == INTERVAL && h.n == 17);
    let u: [u8; 16] = kani::any();
    let mut k = FixBuf::new();
    encode_uuid(&u, &mut k);
    assert!(k.b[0] == UUID && k.n == 17);
    let m: [u8; 6] = kani::any();
    let mut l = FixBuf::new();
    encode_macaddr(&m, &mut l);
    assert!(l.b[0] == MACADDR && l.n == 7);
    let mut n = FixBuf::new();
    encode_enum(kani::any(), kani::any(), &mut n);
    assert!(n.b[0] == ENUM && n.n == 9);
    let mut o = FixBuf::new();
    encode_bool(kani::any(), &mut o);
    assert!((o.b[0] == TRUE || o.b[0] == FALSE) && o.n == 1);
    let mut q = FixBuf::new();
    encode_null(&mut q);
    assert!(q.b[0] == NULL && q.n == 1);
}

// ------------------------------------------------------------------------------------------------
// 4. vacuity guard: a deliberately false postcondition must FAIL (numeric int-vs-float order is NOT
//    what the encoding provides: ints and floats rank by prefix band)
// ------------------------------------------------------------------------------------------------

//@ props=C26 kind=mustfail
/// MUST FAIL: "for all i64 x and f64 f, numeric order == key order" (false: NEG_INT < NEG_FLOAT bands)
#[kani::proof]
#[kani::unwind(26)]
fn c26_mustfail_int_float_numeric_order() {
    let (x, f): (i64, f64) = (kani::any(), kani::any());
    kani::assume(f.is_finite());
    let (mut a, mut b) = (FixBuf::new(), FixBuf::new());
    encode_int(x, &mut a);
    encode_float(f, &mut b);
    if (x as f64) < f {
        assert!(lex(&a, &b) == Ordering::Less);
    }
}

// ------------------------------------------------------------------------------------------------
// 5. escape codec — Kani twin at bounded length (the unbounded proof is the Verus unit `key_escape`)
// ------------------------------------------------------------------------------------------------

pub const ELEN: usize = 3;

/// oracle: Rust's slice Ord (bytewise lexicographic) on s[..n], t[..m]
fn slice_order(s: &[u8; ELEN], n: usize, t: &[u8; ELEN], m: usize) -> Ordering {
    let mut o = Ordering::Equal;
    let mut i = 0;
    while i < ELEN {
        if o == Ordering::Equal && i < n && i < m {
            o = s[i].cmp(&t[i]);
        }
        i += 1;
    }
    if o == Ordering::Equal { n.cmp(&m) } else { o }
}

//@ props=C26 kind=bounded bound="payload length <= 3 bytes (unbounded length: Verus unit key_escape)"
/// text/blob (escape codec) order for all byte strings of length <= 3: bytewise slice order == key order
#[kani::proof]
#[kani::unwind(26)]
fn c26_blob_order_len3() {
    let (s, t): ([u8; ELEN], [u8; ELEN]) = (kani::any(), kani::any());
    let (n, m): (usize, usize) = (kani::any(), kani::any());
    kani::assume(n <= ELEN && m <= ELEN);
    let (mut a, mut b) = (FixBuf::new(), FixBuf::new());
    encode_blob(&s[..n], &mut a);
    encode_blob(&t[..m], &mut b);
    assert!(lex(&a, &b) == slice_order(&s, n, &t, m));
    kani::cover!(n == 3 && m == 2 && s[0] == 0x00 && t[1] == 0xFF);
}

stubs! {
//@ props=C26 kind=bounded bound="payload length <= 2 bytes (unbounded length: Verus unit key_escape)" fallback=key_escape timeout=1800
/// blob inverse for all byte strings of length <= 2: decode_key(enc(s)) == (Blob(s), len)
#[kani::proof]
#[kani::unwind(8)]
fn c26_blob_inverse_len2() {
    let s: [u8; 2] = kani::any();
    let n: usize = kani::any();
    kani::assume(n <= 2);
    let mut a = FixBuf::new();
    encode_blob(&s[..n], &mut a);
    match dec_exact(&a) {
        Some((DecodedKey::Blob(v), k)) => {
            assert!(k == a.n && v.len() == n);
            let j: usize = kani::any();
            kani::assume(j < n);
            assert!(v[j] == s[j]);
            core::mem::forget(v);
        }
        _ => assert!(false),
    }
}
}

// ------------------------------------------------------------------------------------------------
// 6. decoder safety on arbitrary bytes (C23) — bounded by input length
// ------------------------------------------------------------------------------------------------

stubs! {
//@ props=C23 kind=proof timeout=900
/// decode_key on arbitrary bytes (any length 0..=24) behind each NON-RECURSIVE known prefix byte (all
/// scalar / date-time / uuid / inet / macaddr / enum / json-scalar prefixes) and behind 12 representative
/// unknown prefix bytes: returns Ok((_, k)) with 1 <= k <= len, or Err; no panic, no OOB.
/// The prefix byte is concrete per loop iteration (pin idiom, M12), everything after it is symbolic.
#[kani::proof]
#[kani::unwind(40)]
fn c23_decode_key_scalar_prefixes_total() {
    use type_prefix::*;
    const PREFIXES: [u8; 37] = [
        NULL, FALSE, TRUE, NEG_INFINITY, NEG_BIG_INT, NEG_INT, NEG_FLOAT, ZERO, POS_FLOAT, POS_INT, POS_BIG_INT,
        POS_INFINITY, NAN, DATE, TIME, TIMESTAMP, TIMESTAMPTZ, INTERVAL, UUID, INET, MACADDR, ENUM,
        JSON_NULL, JSON_FALSE, JSON_TRUE, JSON_NUMBER,
        0x00, 0x04, 0x0F, 0x1A, 0x22, 0x2F, 0x35, 0x43, 0x57, 0x7F, 0xFF,
    ];
    let mut bytes: [u8; CAP] = kani::any();
    let len: usize = kani::any();
    kani::assume(len <= CAP);
    let mut k = 0;
    let mut some_ok = false;
    let mut some_err = false;
    while k < PREFIXES.len() {
        bytes[0] = PREFIXES[k];
        let r = vs::is_ok_forget(decode_key(&bytes[..len]));
        match r {
            Some((v, n)) => { assert!(n >= 1 && n <= len); core::mem::forget(v); some_ok = true; }
            None => { some_err = true; }
        }
        k += 1;
    }
    kani::cover!(some_ok);
    kani::cover!(some_err);
}
}

stubs! {
//@ props=C26 kind=bounded bound="byte strings of length <= 3 over the alphabet {0x00, 0x41, 0xFF} (the three classes the escape codec distinguishes); all strings: Verus unit key_escape" timeout=900
/// Kani twin of the Verus unit on concrete strings: for every string of length <= 3 over {00, 41, FF},
/// decode_escaped_bytes(encode_escaped_bytes(s) ++ [0x07]) == (s, |encoding|) — the consumed length stops
/// exactly at the terminator, so the next column of a composite key is found
#[kani::proof]
#[kani::unwind(42)]
fn c26_escape_inverse_alphabet() {
    const A: [u8; 3] = [0x00, 0x41, 0xFF];
    let mut code = 0usize;
    while code < 40 {
        // 1 string of length 0, 3 of length 1, 9 of length 2, 27 of length 3
        let (n, c) = if code < 1 { (0, 0) } else if code < 4 { (1, code - 1) } else if code < 13 { (2, code - 4) } else { (3, code - 13) };
        let s = [A[c % 3], A[(c / 3) % 3], A[(c / 9) % 3]];
        let mut enc = FixBuf::new();
        encode_escaped_bytes(&s[..n], &mut enc);
        enc.push(0x07); // first byte of a following column
        match vs::is_ok_forget(decode_escaped_bytes(&enc.b[..enc.n])) {
            Some((v, k)) => {
                assert!(k == enc.n - 1);
                assert!(v.len() == n);
                if n > 0 { assert!(v[0] == s[0] && v[n - 1] == s[n - 1]); }
                if n > 2 { assert!(v[1] == s[1]); }
                core::mem::forget(v);
            }
            None => assert!(false),
        }
        code += 1;
    }
}
}

stubs! {
//@ props=C23 kind=bounded bound="20 listed concrete truncation patterns of JSON_ARRAY / JSON_OBJECT / ARRAY keys (symbolic nested input of <= 4 bytes timed out at 25 min)" timeout=3000 tier=manual
/// recursive decoders on listed truncation patterns: decode_key on an array / json-array / json-object key
/// cut at every structural position (after the prefix, after an element, after a separator, after an object
/// member name) returns Ok((_, k)) with k <= len, or Err — no panic, no OOB
#[kani::proof]
#[kani::unwind(12)]
fn c23_decode_key_nested_truncations() {
    const N: usize = 20;
    const PAT: [([u8; 5], usize); N] = [
        ([0x55, 0, 0, 0, 0], 1), ([0x55, 0x00, 0, 0, 0], 2), ([0x55, 0x50, 0, 0, 0], 2), ([0x55, 0x50, 0x00, 0, 0], 3),
        ([0x55, 0x50, 0x01, 0, 0], 3), ([0x55, 0x50, 0x01, 0x50, 0], 4), ([0x55, 0x50, 0x01, 0x50, 0x00], 5),
        ([0x56, 0, 0, 0, 0], 1), ([0x56, 0x00, 0, 0, 0], 2), ([0x56, 0x61, 0x00, 0x00, 0], 4), ([0x56, 0x00, 0x00, 0, 0], 3),
        ([0x56, 0x00, 0x00, 0x50, 0], 4), ([0x56, 0x00, 0x00, 0x50, 0x00], 5), ([0x56, 0x00, 0x00, 0x50, 0x01], 5),
        ([0x60, 0, 0, 0, 0], 1), ([0x60, 0x00, 0, 0, 0], 2), ([0x60, 0x01, 0, 0, 0], 2), ([0x60, 0x01, 0x00, 0, 0], 3),
        ([0x60, 0x01, 0x01, 0, 0], 3), ([0x60, 0x01, 0x01, 0x01, 0x00], 5),
    ];
    assert!(type_prefix::JSON_ARRAY == 0x55 && type_prefix::JSON_OBJECT == 0x56 && type_prefix::ARRAY == 0x60
        && type_prefix::JSON_NULL == 0x50 && type_prefix::NULL == 0x01);
    let mut i = 0;
    while i < N {
        let (b, l) = PAT[i];
        if let Some((v, k)) = vs::is_ok_forget(decode_key(&b[..l])) {
            assert!(k >= 1 && k <= l);
            core::mem::forget(v);
        }
        i += 1;
    }
}
}

stubs! {
//@ props=C26 kind=proof timeout=900
/// vector keys (1 and 2 components, every f32 bit pattern except NaN): component order == key order and
/// decode_key(encode_vector(v)) returns the same component bits — including -0.0
#[kani::proof]
#[kani::unwind(26)]
fn c26_vector_component_order_inverse() {
    let (x, y): (f32, f32) = (kani::any(), kani::any());
    kani::assume(!x.is_nan() && !y.is_nan());
    let (mut a, mut b) = (FixBuf::new(), FixBuf::new());
    encode_vector(&[x], &mut a);
    encode_vector(&[y], &mut b);
    if x < y { assert!(lex(&a, &b) == Ordering::Less); }
    if x > y { assert!(lex(&a, &b) == Ordering::Greater); }
    pin(&mut a, type_prefix::VECTOR, 9);
    // the dimension count bytes are constants written by the encoder: prove and pin them
    assert!(a.b[1] == 0 && a.b[2] == 0 && a.b[3] == 0 && a.b[4] == 1);
    a.b[1] = 0; a.b[2] = 0; a.b[3] = 0; a.b[4] = 1;
    match vs::is_ok_forget(decode_key(&a.b[..9])) {
        Some((DecodedKey::Vector(v), k)) => { assert!(k == 9 && v.len() == 1); assert!(v[0].to_bits() == x.to_bits()); core::mem::forget(v); }
        _ => assert!(false),
    }
}
}

stubs! {
//@ props=C26 kind=proof tier=manual timeout=3000
/// JSON number keys: decode_key(encode_json(Number(x))) returns the same bits for every non-NaN f64 —
/// including -0.0 — and consumes exactly the 9 bytes written
#[kani::proof]
#[kani::unwind(4)]
fn c26_json_number_inverse() {
    let x: f64 = kani::any();
    kani::assume(!x.is_nan());
    let mut a = FixBuf::new();
    encode_json(&JsonValue::Number(x), &mut a);
    pin(&mut a, type_prefix::JSON_NUMBER, 9);
    match vs::is_ok_forget(decode_key(&a.b[..9])) {
        Some((DecodedKey::Json(DecodedJson::Number(v)), k)) => assert!(k == 9 && v.to_bits() == x.to_bits()),
        _ => assert!(false),
    }
}
}
