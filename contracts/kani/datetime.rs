// C41 / C20 contracts for src/sql/functions/datetime.rs (date-function kernels)
use super::*;
include!("/verif/contracts/kani/_calendar_oracle.rs");

//@ props=C41,C20 kind=proof
/// date_to_days is the civil day number with anchor date_to_days(1970,1,1) == 719163:
/// anchor + successor rule for every valid date of years 1..=9999 (next date may be 10000-01-01)
#[kani::proof]
#[kani::unwind(2)]
fn c41_date_to_days_anchor_successor() {
    assert!(date_to_days(1970, 1, 1) == 719163);
    let (y, m, d) = o_any_date(1, 9999);
    let (y2, m2, d2) = o_next(y, m, d);
    assert!(date_to_days(y2, m2, d2) == date_to_days(y, m, d) + 1);
    kani::cover!(m == 2 && d == 29 && y % 400 == 0);
    kani::cover!(m == 12 && d == 31);
}

//@ props=C41,C20 kind=proof
/// leap-year and month-length helpers of the date functions agree with the calendar rule (valid months)
#[kani::proof]
#[kani::unwind(2)]
fn c41_datetime_leap_dim() {
    let y: i64 = kani::any();
    kani::assume(y >= 1 && y <= 9999);
    assert!(is_leap_year(y) == o_leap(y));
    let m: u32 = kani::any();
    kani::assume(m >= 1 && m <= 12);
    assert!(days_in_month(y, m) == o_dim(y, m));
}

macro_rules! inverse_month {
    ($name:ident, $m:expr) => {
        //@ props=C41,C20 kind=proof solver=kissat timeout=900
        /// days_to_date(date_to_days(y,m,d)) == (y,m,d) for every valid date of years 1..=9999 in this month
        #[kani::proof]
        #[kani::unwind(2)]
        fn $name() {
            let (y, m, d) = o_any_date(1, 9999);
            kani::assume(m == $m);
            let n = date_to_days(y, m, d);
            let (y2, m2, d2) = days_to_date(n);
            assert!(y2 == y && m2 == m && d2 == d);
        }
    };
}
inverse_month!(c41_days_to_date_inverse_m01, 1);
inverse_month!(c41_days_to_date_inverse_m02, 2);
inverse_month!(c41_days_to_date_inverse_m03, 3);
inverse_month!(c41_days_to_date_inverse_m04, 4);
inverse_month!(c41_days_to_date_inverse_m05, 5);
inverse_month!(c41_days_to_date_inverse_m06, 6);
inverse_month!(c41_days_to_date_inverse_m07, 7);
inverse_month!(c41_days_to_date_inverse_m08, 8);
inverse_month!(c41_days_to_date_inverse_m09, 9);
inverse_month!(c41_days_to_date_inverse_m10, 10);
inverse_month!(c41_days_to_date_inverse_m11, 11);
inverse_month!(c41_days_to_date_inverse_m12, 12);

//@ props=C20 kind=proof solver=kissat timeout=900
/// day_of_year: 1 on Jan 1, advances by 1 per day inside a year, so it is the 1-based ordinal (<= 366)
#[kani::proof]
#[kani::unwind(2)]
fn c20_day_of_year_ordinal() {
    let (y, m, d) = o_any_date(1, 9999);
    assert!(day_of_year(y, 1, 1) == 1);
    let doy = day_of_year(y, m, d);
    assert!(doy >= 1 && doy <= 366);
    let (y2, m2, d2) = o_next(y, m, d);
    if y2 == y {
        assert!(day_of_year(y2, m2, d2) == doy + 1);
    } else {
        assert!(doy == if o_leap(y) { 366 } else { 365 });
    }
}

macro_rules! dow_month {
    ($name:ident, $m:expr) => {
        //@ props=C20 kind=proof solver=kissat timeout=900
        /// day_of_week(y,m,d) == (civil day number + 4) mod 7 with 0 = Sunday (1970-01-01 was a Thursday),
        /// for every valid date of years 1..=9999 in this month
        #[kani::proof]
        #[kani::unwind(2)]
        fn $name() {
            let (y, m, d) = o_any_date(1, 9999);
            kani::assume(m == $m);
            let n = date_to_days(y, m, d) - 719163; // civil day number (proved by c41_date_to_days_anchor_successor)
            let expect = (((n % 7) + 7 + 4) % 7) as u32;
            assert!(day_of_week(y, m, d) == expect);
        }
    };
}
dow_month!(c20_day_of_week_m01, 1);
dow_month!(c20_day_of_week_m02, 2);
dow_month!(c20_day_of_week_m03, 3);
dow_month!(c20_day_of_week_m04, 4);
dow_month!(c20_day_of_week_m05, 5);
dow_month!(c20_day_of_week_m06, 6);
dow_month!(c20_day_of_week_m07, 7);
dow_month!(c20_day_of_week_m08, 8);
dow_month!(c20_day_of_week_m09, 9);
dow_month!(c20_day_of_week_m10, 10);
dow_month!(c20_day_of_week_m11, 11);
dow_month!(c20_day_of_week_m12, 12);

//@ props=C41 kind=mustfail
/// MUST FAIL (vacuity guard): "February 28 is always followed by March 1" (false in leap years)
#[kani::proof]
#[kani::unwind(2)]
fn c41_mustfail_wrong_calendar() {
    let y: i64 = kani::any();
    kani::assume(y >= 1 && y <= 9999);
    assert!(date_to_days(y, 3, 1) == date_to_days(y, 2, 28) + 1);
}
