// C41 contracts for src/parsing/literal.rs (DATE/TIMESTAMP literal converter)
use super::*;
include!("/verif/contracts/kani/_calendar_oracle.rs");

//@ props=C41 kind=proof
/// literal parser's leap-year / month-length helpers agree with the calendar rule (this is what makes
/// parse_date reject e.g. February 29 in a non-leap year: it compares the day with days_in_month)
#[kani::proof]
#[kani::unwind(2)]
fn c41_literal_leap_dim() {
    let y: i32 = kani::any();
    kani::assume(y >= 1 && y <= 9999);
    assert!(is_leap_year(y) == o_leap(y as i64));
    let m: u32 = kani::any();
    kani::assume(m >= 1 && m <= 12);
    assert!(days_in_month(y, m) == o_dim(y as i64, m));
}

//@ props=C41 kind=proof
/// within one year the literal converter follows the successor rule (month/day part; loop over months
/// is bounded by 12) — years 1970..=1972 keep the year loop at <= 3 iterations; the year part is the
/// separate obligation c41_literal_year_step (Kani, unwind 8031) and the Verus unit literal_year_loop
#[kani::proof]
#[kani::unwind(14)]
fn c41_literal_successor_within_year() {
    assert!(date_to_days_since_epoch(1970, 1, 1) == 0);
    let (y, m, d) = o_any_date(1970, 1972);
    let (y2, m2, d2) = o_next(y, m, d);
    assert!(date_to_days_since_epoch(y2 as i32, m2, d2) == date_to_days_since_epoch(y as i32, m, d) + 1);
}

//@ props=C41 kind=bounded bound="17 concrete years around the century rules; all years: Verus unit literal_year_loop" timeout=1500
/// Kani twin of the Verus unit at the years where the 4/100/400 rule bites: for each listed (concrete) year
/// the step f(y+1,1,1) - f(y,1,1) of date_to_days_since_epoch is the year's length and the anchor is 0
#[kani::proof]
#[kani::unwind(440)]
fn c41_literal_year_steps_at_centuries() {
    assert!(date_to_days_since_epoch(1970, 1, 1) == 0);
    const YEARS: [i32; 17] = [1899, 1900, 1901, 1968, 1969, 1970, 1971, 1972, 1999, 2000, 2001, 2099, 2100, 2101, 2103, 2399, 2400];
    let mut k = 0;
    while k < 17 {
        let y = YEARS[k];
        let step = date_to_days_since_epoch(y + 1, 1, 1) - date_to_days_since_epoch(y, 1, 1);
        assert!(step == if o_leap(y as i64) { 366 } else { 365 });
        k += 1;
    }
}

//@ props=C41 kind=proof timeout=900 fallback=literal_year_loop
/// year part, complete for years 1..=9999: date_to_days_since_epoch(y+1,1,1) - date_to_days_since_epoch(y,1,1)
/// == 365/366 per the leap rule, and the month/day offset inside a year does not depend on the year loop:
/// date_to_days_since_epoch(y,m,d) - date_to_days_since_epoch(y,1,1) == ordinal(y,m,d)-1.
/// unwind 8031 = 9999-1970+2 iterations at most (bound derived from the precondition; unwinding assertions on)
#[kani::proof]
#[kani::unwind(8031)]
fn c41_literal_year_step() {
    let y: i32 = kani::any();
    kani::assume(y >= 1 && y <= 9999);
    let a = date_to_days_since_epoch(y, 1, 1);
    let b = date_to_days_since_epoch(y + 1, 1, 1);
    assert!(b - a == if o_leap(y as i64) { 366 } else { 365 });
    // month/day offset inside year y: equals the calendar ordinal - 1
    let m: u32 = kani::any();
    let d: u32 = kani::any();
    kani::assume(m >= 1 && m <= 12 && d >= 1 && d <= o_dim(y as i64, m));
    let mut ord: i32 = d as i32 - 1;
    let mut k = 1u32;
    while k < 12 {
        if k < m { ord += o_dim(y as i64, k) as i32; }
        k += 1;
    }
    assert!(date_to_days_since_epoch(y, m, d) - a == ord);
    assert!(date_to_days_since_epoch(1970, 1, 1) == 0);
}

//@ props=C41 kind=mustfail
/// MUST FAIL (vacuity guard): "every year has 365 days"
#[kani::proof]
#[kani::unwind(14)]
fn c41_mustfail_literal_no_leap() {
    let a = date_to_days_since_epoch(1972, 1, 1);
    let b = date_to_days_since_epoch(1973, 1, 1);
    assert!(b - a == 365);
}
