// C15 contracts for src/database/query/helpers.rs — compare_owned_values (ORDER BY in the join/subquery paths)
use super::*;

fn any_ov(mixed: bool) -> OwnedValue {
    let w: u8 = kani::any();
    kani::assume(w < 7);
    match w {
        0 => OwnedValue::Null,
        1 => OwnedValue::Int(kani::any()),
        2 => { kani::assume(mixed); let f: f64 = kani::any(); kani::assume(!f.is_nan()); OwnedValue::Float(f) }
        3 => OwnedValue::Bool(kani::any()),
        4 => OwnedValue::Date(kani::any()),
        5 => OwnedValue::Time(kani::any()),
        _ => OwnedValue::Timestamp(kani::any()),
    }
}
fn same_type_or_null(a: &OwnedValue, b: &OwnedValue) -> bool {
    matches!((a, b), (OwnedValue::Null, _) | (_, OwnedValue::Null)) || core::mem::discriminant(a) == core::mem::discriminant(b)
}

//@ props=C15 kind=proof
/// compare_owned_values on keys of one type (+NULL) over {Int, Bool, Date, Time, Timestamp}: NULL first,
/// natural order inside the type, antisymmetric, transitive (total preorder)
#[kani::proof]
#[kani::unwind(2)]
fn c15_owned_cmp_total_preorder() {
    let (a, b, c) = (any_ov(false), any_ov(false), any_ov(false));
    kani::assume(same_type_or_null(&a, &b) && same_type_or_null(&b, &c) && same_type_or_null(&a, &c));
    let (ab, ba, bc, ac) = (compare_owned_values(&a, &b), compare_owned_values(&b, &a), compare_owned_values(&b, &c), compare_owned_values(&a, &c));
    assert!(ab == ba.reverse());
    if ab != Ordering::Greater && bc != Ordering::Greater { assert!(ac != Ordering::Greater); }
    match (&a, &b) {
        (OwnedValue::Null, OwnedValue::Null) => assert!(ab == Ordering::Equal),
        (OwnedValue::Null, _) => assert!(ab == Ordering::Less),
        (_, OwnedValue::Null) => assert!(ab == Ordering::Greater),
        (OwnedValue::Int(x), OwnedValue::Int(y)) => assert!(ab == x.cmp(y)),
        (OwnedValue::Bool(x), OwnedValue::Bool(y)) => assert!(ab == x.cmp(y)),
        (OwnedValue::Date(x), OwnedValue::Date(y)) => assert!(ab == x.cmp(y)),
        (OwnedValue::Time(x), OwnedValue::Time(y)) => assert!(ab == x.cmp(y)),
        (OwnedValue::Timestamp(x), OwnedValue::Timestamp(y)) => assert!(ab == x.cmp(y)),
        _ => {}
    }
    core::mem::forget((a, b, c));
}

//@ props=C15 kind=proof
/// Float/Float keys (non-NaN): IEEE order
#[kani::proof]
#[kani::unwind(2)]
fn c15_owned_cmp_float() {
    let (x, y): (f64, f64) = (kani::any(), kani::any());
    kani::assume(!x.is_nan() && !y.is_nan());
    assert!(Some(compare_owned_values(&OwnedValue::Float(x), &OwnedValue::Float(y))) == x.partial_cmp(&y));
}

//@ props=C15 kind=known finding=F-C15-3
/// KNOWN FINDING F-C15-3: compare_owned_values must be transitive on keys mixing Int and Float; via
/// `as f64` it is not above 2^53 (Int(2^53+1) = Float(2^53) = Int(2^53) but Int(2^53+1) > Int(2^53))
#[kani::proof]
#[kani::unwind(2)]
fn c15_known_owned_cmp_mixed_transitive() {
    let (i, j): (i64, i64) = (kani::any(), kani::any());
    let f: f64 = kani::any();
    kani::assume(!f.is_nan());
    let (a, b, c) = (OwnedValue::Int(i), OwnedValue::Float(f), OwnedValue::Int(j));
    let (ab, bc, ac) = (compare_owned_values(&a, &b), compare_owned_values(&b, &c), compare_owned_values(&a, &c));
    if ab == Ordering::Equal && bc == Ordering::Equal { assert!(ac == Ordering::Equal); }
}
