// C41 contracts for src/constraints/mod.rs (DEFAULT-literal date converter)
use super::*;
include!("/verif/contracts/kani/_calendar_oracle.rs");

//@ props=C41 kind=proof
/// days_from_ymd is the civil day number with days_from_ymd(1970,1,1) == 0: anchor + successor rule
/// for every valid date of years 1..=9999
#[kani::proof]
#[kani::unwind(2)]
fn c41_days_from_ymd_anchor_successor() {
    assert!(ConstraintValidator::days_from_ymd(1970, 1, 1) == 0);
    let (y, m, d) = o_any_date(1, 9999);
    let (y2, m2, d2) = o_next(y, m, d);
    assert!(ConstraintValidator::days_from_ymd(y2 as i32, m2, d2) == ConstraintValidator::days_from_ymd(y as i32, m, d) + 1);
    kani::cover!(m == 2 && d == 28 && y % 100 == 0 && y % 400 != 0);
}
