// C34 contracts for src/storage/freelist.rs — the freelist as a LIFO stack of released pages.
// Inductive step contracts over an ARBITRARY well-formed freelist on a 3-page store (page 0 is the file
// header page and must never be touched; pages 1 and 2 can be trunks).  Trunk capacity is NOT a bound:
// `count` is symbolic in 0..=TRUNK_MAX_ENTRIES and entries are addressed through witness indices.
// The number of trunk pages in the chain is bounded by the store (<= 2) — stated as a bound.
use super::*;
use crate::verif_stubs as vs;

const NP: usize = 3;
#[repr(C, align(8))]
struct Page([u8; PAGE_SIZE]);
/// harness side of the `Storage` trait: a fixed array of pages (the only non-TurDB code in the loop)
struct Mem { pages: [Box<Page>; NP - 1] } // pages 1 and 2; page 0 (file header) is never requested
impl Storage for Mem {
    fn page(&self, n: u32) -> eyre::Result<&[u8]> {
        assert!(n != 0); // the file-header page is never a freelist page
        // explicit two-way match: keeps the returned reference an if-then-else of two concrete objects
        match n { 1 => Ok(&self.pages[0].0[..]), 2 => Ok(&self.pages[1].0[..]), _ => Err(eyre::eyre!("page out of range")) }
    }
    fn page_mut(&mut self, n: u32) -> eyre::Result<&mut [u8]> {
        assert!(n != 0); // the file-header page is never a freelist page
        match n { 1 => Ok(&mut self.pages[0].0[..]), 2 => Ok(&mut self.pages[1].0[..]), _ => Err(eyre::eyre!("page out of range")) }
    }
    fn grow(&mut self, _n: u32) -> eyre::Result<()> { Ok(()) }
    fn page_count(&self) -> u32 { NP as u32 }
    fn sync(&self) -> eyre::Result<()> { Ok(()) }
}

const TH: usize = PAGE_HEADER_SIZE;               // trunk header offset in a page
const E0: usize = PAGE_HEADER_SIZE + TRUNK_HEADER_SIZE; // first entry offset

fn rd32(p: &Page, off: usize) -> u32 { u32::from_le_bytes([p.0[off], p.0[off + 1], p.0[off + 2], p.0[off + 3]]) }
fn t_next(m: &Mem, pg: u32) -> u32 { rd32(&m.pages[pg as usize - 1], TH) }
fn t_count(m: &Mem, pg: u32) -> u32 { rd32(&m.pages[pg as usize - 1], TH + 4) }
fn t_entry(m: &Mem, pg: u32, i: u32) -> u32 { rd32(&m.pages[pg as usize - 1], E0 + 4 * i as usize) }

/// well-formedness of (Freelist, store) with a chain of at most 2 trunks; returns the abstract size
/// (number of pages the stack holds: every trunk page + every entry)
fn wf(f: &Freelist, m: &Mem) -> Option<u32> {
    let h = f.head_page;
    if h == 0 { return if f.free_count == 0 { Some(0) } else { None }; }
    if h as usize >= NP { return None; }
    let c1 = t_count(m, h);
    if c1 as usize > TRUNK_MAX_ENTRIES { return None; }
    let n = t_next(m, h);
    let mut size = 1 + c1;
    if n != 0 {
        if n as usize >= NP || n == h { return None; }
        let c2 = t_count(m, n);
        if c2 as usize > TRUNK_MAX_ENTRIES || t_next(m, n) != 0 { return None; }
        size += 1 + c2;
    }
    if f.free_count == size { Some(size) } else { None }
}
/// top of the abstract stack (the page the next allocate must return)
fn top(f: &Freelist, m: &Mem) -> u32 {
    let h = f.head_page;
    let c = t_count(m, h);
    if c > 0 { t_entry(m, h, c - 1) } else { h }
}
macro_rules! stubs {
    ($($item:item)*) => { $(
        #[kani::stub(eyre::capture_handler, vs::capture_handler)]
        #[kani::stub(eyre::private::new_adhoc, vs::new_adhoc)]
        #[kani::stub(eyre::private::format_err, vs::format_err)]
        #[kani::stub(alloc::fmt::format, vs::format)]
        $item
    )* };
}

const MAXE: u32 = TRUNK_MAX_ENTRIES as u32;

/// arbitrary page contents (every byte symbolic)
fn any_mem() -> Mem {
    // page 0 is never requested (asserted in the Storage impl); it still exists so that indices line up
    Mem { pages: [Box::new(Page(kani::any())), Box::new(Page(kani::any()))] }
}
fn wr32(p: &mut Page, off: usize, v: u32) { p.0[off..off + 4].copy_from_slice(&v.to_le_bytes()); }

/// An arbitrary well-formed state of a given SHAPE: head page `h` (0 = empty list) and next trunk `n`
/// (0 = none) are concrete per harness (keeps page references concrete pointers); the entry counts of both
/// trunks, every entry and every page byte are symbolic.  Returns (freelist, store, size).
fn state_of_shape(h: u32, n: u32) -> (Freelist, Mem, u32) {
    let mut m = any_mem();
    let mut size = 0u32;
    if h != 0 {
        wr32(&mut m.pages[h as usize - 1], TH, n);
        let c = t_count(&m, h);
        kani::assume(c <= MAXE);
        size = 1 + c;
        if n != 0 {
            wr32(&mut m.pages[n as usize - 1], TH, 0);
            let c2 = t_count(&m, n);
            kani::assume(c2 <= MAXE);
            size += 1 + c2;
        }
    }
    let f = Freelist::with_head(h, size);
    assert!(wf(&f, &m) == Some(size));
    (f, m, size)
}

/// allocate step over an arbitrary well-formed freelist of the given shape: returns None iff the stack is
/// empty; otherwise returns exactly the top of the stack (a page that was released and not yet handed
/// out), the reported free count drops by one, the state stays well formed, and nothing but the count
/// field of the head trunk changes (witness byte over both pages); page 0 is never even requested
fn allocate_case(h0: u32, n0: u32) {
    let (mut f, mut m, size) = state_of_shape(h0, n0);
    let c0 = if h0 != 0 { t_count(&m, h0) } else { 0 };
    let expect = if size > 0 { Some(top(&f, &m)) } else { None };
    let woff: usize = kani::any();
    kani::assume(woff < PAGE_SIZE);
    let before1 = m.pages[0].0[woff];
    let before2 = m.pages[1].0[woff];
    let got = vs::is_ok_forget(f.allocate(&mut m));
    assert!(got.is_some());                         // never an error on a well-formed list
    let got = got.unwrap();
    assert!(got == expect);                         // the stack's top, or None iff empty
    assert!(f.free_count == size - (if size > 0 { 1 } else { 0 }));
    assert!(wf(&f, &m).is_some());                  // invariant preserved
    let in_count = woff >= TH + 4 && woff < TH + 8;
    if !(h0 == 1 && in_count) { assert!(m.pages[0].0[woff] == before1); }
    if !(h0 == 2 && in_count) { assert!(m.pages[1].0[woff] == before2); }
    if size > 0 && c0 > 0 { assert!(t_count(&m, h0) == c0 - 1 && f.head_page == h0); }
    if size > 0 && c0 == 0 { assert!(f.head_page == n0); }
    if h0 != 0 {
        let cv1 = c0 == 0;
        let cv2 = c0 == MAXE;
        kani::cover!(cv1);
        kani::cover!(cv2);
    }
    core::mem::forget(m);
}

/// release step on a given shape: for a page p that is not the file-header page and not currently a
/// trunk, the state stays well formed, free_count grows by one, p becomes the top of the stack, and
/// everything below it is unchanged (witness entry).  `trunk_p` != 0: the case where p must become a trunk
/// (empty list or full head trunk) with p = trunk_p; trunk_p == 0: p is an arbitrary page number pushed
/// as an entry.
fn release_case(h0: u32, n0: u32, trunk_p: u32) {
    let (mut f, mut m, size) = state_of_shape(h0, n0);
    let c0 = if h0 != 0 { t_count(&m, h0) } else { 0 };
    let becomes_trunk = h0 == 0 || c0 >= MAXE;
    kani::assume(becomes_trunk == (trunk_p != 0));
    // entry case: p is only a *value* stored in the entry array; it ranges over every page number outside
    // the 2-page harness store (p >= 3), which keeps the infeasible create_new_trunk path free of writes
    // through a symbolic page reference (that path costs CBMC > 24 GB otherwise)
    let p: u32 = if trunk_p != 0 { trunk_p } else { let q: u32 = kani::any(); kani::assume(q >= NP as u32); q };
    kani::assume(p != 0 && p != h0 && p != n0);   // p is not currently free as a trunk page
    let old_top = if size > 0 { Some(top(&f, &m)) } else { None };
    let wi: u32 = kani::any();
    kani::assume(wi < c0);
    let e_before = if h0 != 0 && c0 > 0 { t_entry(&m, h0, wi) } else { 0 };
    let ok = vs::is_ok_forget(f.release(&mut m, p)).is_some();
    assert!(ok);
    assert!(wf(&f, &m) == Some(size + 1));
    assert!(top(&f, &m) == p);
    if h0 != 0 && c0 > 0 { assert!(t_entry(&m, h0, wi) == e_before); }
    if becomes_trunk {
        assert!(f.head_page == p && t_count(&m, p) == 0 && t_next(&m, p) == h0);
        if h0 != 0 { assert!(t_count(&m, h0) == c0 && t_next(&m, h0) == n0); }
    } else {
        assert!(f.head_page == h0 && t_count(&m, h0) == c0 + 1 && t_next(&m, h0) == n0);
        if let Some(t) = old_top { if c0 > 0 { assert!(t_entry(&m, h0, c0 - 1) == t); } }
    }
    core::mem::forget(m);
}

macro_rules! alloc_h {
    ($name:ident, $h:expr, $n:expr) => {
        //@ props=C34 kind=bounded small_pages=1 bound="PAGE_SIZE scaled to 256 bytes by cfg(kahflane_turdb_verif_small_pages) (TRUNK_MAX_ENTRIES = 58, every count 0..=58 symbolic); chain of <= 2 trunks"
        /// allocate step contract (see allocate_case) for one chain shape (head page, next trunk page, head count)
        #[kani::proof]
        #[kani::stub(eyre::capture_handler, vs::capture_handler)]
        #[kani::stub(eyre::private::new_adhoc, vs::new_adhoc)]
        #[kani::stub(eyre::private::format_err, vs::format_err)]
        #[kani::stub(alloc::fmt::format, vs::format)]
        #[kani::unwind(5)]
        fn $name() { allocate_case($h, $n); }
    };
}
alloc_h!(c34_allocate_empty, 0, 0);
alloc_h!(c34_allocate_h1, 1, 0);
alloc_h!(c34_allocate_h2, 2, 0);
alloc_h!(c34_allocate_h1_n2, 1, 2);
alloc_h!(c34_allocate_h2_n1, 2, 1);

macro_rules! release_h {
    ($name:ident, $h:expr, $n:expr, $tp:expr) => {
        //@ props=C34 kind=bounded small_pages=1 bound="PAGE_SIZE scaled to 256 bytes by cfg(kahflane_turdb_verif_small_pages) (TRUNK_MAX_ENTRIES = 58, every count 0..=58 symbolic); chain of <= 2 trunks"
        /// release step contract (see release_case) for one chain shape; trunk_p != 0 = the released page
        /// becomes a trunk (empty list / full head trunk), trunk_p == 0 = it is pushed as an entry
        #[kani::proof]
        #[kani::stub(eyre::capture_handler, vs::capture_handler)]
        #[kani::stub(eyre::private::new_adhoc, vs::new_adhoc)]
        #[kani::stub(eyre::private::format_err, vs::format_err)]
        #[kani::stub(alloc::fmt::format, vs::format)]
        #[kani::unwind(5)]
        fn $name() { release_case($h, $n, $tp); }
    };
}
release_h!(c34_release_empty_p1, 0, 0, 1);
release_h!(c34_release_empty_p2, 0, 0, 2);
release_h!(c34_release_h1_entry, 1, 0, 0);
release_h!(c34_release_h2_entry, 2, 0, 0);
release_h!(c34_release_h1_full_p2, 1, 0, 2);
release_h!(c34_release_h2_full_p1, 2, 0, 1);
release_h!(c34_release_h1_n2_entry, 1, 2, 0);

macro_rules! real_h {
    ($name:ident, $body:expr) => {
        //@ props=C34 kind=bounded tier=thorough timeout=3000 bound="shipped PAGE_SIZE = 16384 (TRUNK_MAX_ENTRIES = 4090, every count symbolic); chain of <= 2 trunks; one chain shape"
        /// the same step contract with the SHIPPED page size (no cfg hook): shows the scaled configuration is
        /// not hiding a dependence on the constant; 10-15 min per obligation, hence thorough tier only
        #[kani::proof]
        #[kani::stub(eyre::capture_handler, vs::capture_handler)]
        #[kani::stub(eyre::private::new_adhoc, vs::new_adhoc)]
        #[kani::stub(eyre::private::format_err, vs::format_err)]
        #[kani::stub(alloc::fmt::format, vs::format)]
        #[kani::unwind(5)]
        fn $name() { $body; }
    };
}
real_h!(c34_allocate_h1_n2_real_pages, allocate_case(1, 2));
real_h!(c34_release_h1_entry_real_pages, release_case(1, 0, 0)); //@tier=manual

stubs! {
//@ props=C34 kind=bounded small_pages=1 bound="PAGE_SIZE scaled to 256 bytes; history release(1); allocate(); allocate() from the empty list"
/// base case + smallest history from the empty freelist: new() is well formed and empty; release(p) then
/// allocate() returns p and leaves the list empty; a second allocate() returns None; page 0 never requested
#[kani::proof]
#[kani::unwind(5)]
fn c34_empty_release_allocate() {
    let mut m = any_mem();
    let mut f = Freelist::new();
    assert!(wf(&f, &m) == Some(0));
    assert!(vs::is_ok_forget(f.release(&mut m, 1)).is_some());
    assert!(f.free_count() == 1);
    let a = vs::is_ok_forget(f.allocate(&mut m));
    assert!(a == Some(Some(1)));                   // the reported free count (1) is really allocatable
    assert!(f.free_count() == 0 && f.is_empty());
    let b = vs::is_ok_forget(f.allocate(&mut m));
    assert!(b == Some(None));
}
}

//@ props=C34 kind=mustfail small_pages=1
/// MUST FAIL (vacuity guard): "allocate on a well-formed non-empty list returns None"
#[kani::proof]
#[kani::unwind(5)]
#[kani::stub(eyre::capture_handler, vs::capture_handler)]
#[kani::stub(eyre::private::new_adhoc, vs::new_adhoc)]
#[kani::stub(eyre::private::format_err, vs::format_err)]
#[kani::stub(alloc::fmt::format, vs::format)]
fn c34_mustfail_allocate_none() {
    let (mut f, mut m, size) = state_of_shape(1, 0);
    kani::assume(size > 0);
    let got = vs::is_ok_forget(f.allocate(&mut m));
    assert!(got == Some(None));
}
