// C16 contracts for src/sql/state.rs — AggregateState::{new, update, finalize}: inductive step contracts
// against a ghost summary of the inputs seen so far.  Grouping, HAVING and the planner are NOT covered.
use super::*;

/// ghost summary of the non-absent inputs of one aggregate over a column of INTEGER-or-NULL values
#[derive(Clone, Copy)]
struct G {
    rows: i64,          // rows fed to update()
    nonnull: i64,       // rows whose column value was a (non-NULL) integer
    isum: i128,         // exact mathematical sum of those integers
    min: Option<i64>,
    max: Option<i64>,
}

fn any_g() -> G {
    let g = G { rows: kani::any(), nonnull: kani::any(), isum: kani::any(), min: kani::any(), max: kani::any() };
    kani::assume(g.rows >= 0 && g.rows < i64::MAX && g.nonnull >= 0 && g.nonnull <= g.rows);
    kani::assume(g.isum >= i64::MIN as i128 && g.isum <= i64::MAX as i128);
    kani::assume((g.nonnull == 0) == g.min.is_none() && (g.nonnull == 0) == g.max.is_none());
    if g.nonnull == 0 { kani::assume(g.isum == 0); }
    if let (Some(a), Some(b)) = (g.min, g.max) { kani::assume(a <= b); }
    g
}

/// Inv(state, G, kind): how the real fields relate to the ghost summary, per aggregate kind
fn inv(s: &AggregateState, g: &G, kind: u8) -> bool {
    match kind {
        0 => s.count == g.rows,                                            // COUNT(*)
        1 => s.sum as i128 == g.isum && s.sum_float == 0.0,                // SUM
        2 => s.sum as i128 == g.isum && s.sum_float == 0.0 && s.count == g.nonnull, // AVG
        3 => s.min_int == g.min && s.min_float.is_none(),                  // MIN
        _ => s.max_int == g.max && s.max_float.is_none(),                  // MAX
    }
}

fn func(kind: u8) -> AggregateFunction {
    match kind {
        0 => AggregateFunction::Count { distinct: false },
        1 => AggregateFunction::Sum { column: 0 },
        2 => AggregateFunction::Avg { column: 0 },
        3 => AggregateFunction::Min { column: 0 },
        _ => AggregateFunction::Max { column: 0 },
    }
}

fn any_state() -> AggregateState {
    AggregateState { count: kani::any(), sum: kani::any(), sum_float: kani::any(), min_int: kani::any(),
                     max_int: kani::any(), min_float: kani::any(), max_float: kani::any() }
}

//@ props=C16 kind=proof
/// base case: Inv(new(), empty summary) for every aggregate kind
#[kani::proof]
#[kani::unwind(2)]
fn c16_new_establishes_inv() {
    let s = AggregateState::new();
    let g0 = G { rows: 0, nonnull: 0, isum: 0, min: None, max: None };
    let kind: u8 = kani::any();
    kani::assume(kind < 5);
    assert!(inv(&s, &g0, kind));
}

//@ props=C16 kind=proof
/// step: for an ARBITRARY state with Inv and an arbitrary next cell in {NULL, Int(i)} (sum not leaving i64),
/// update() re-establishes Inv for the extended summary — NULL inputs are ignored by SUM/AVG/MIN/MAX and
/// counted by COUNT(*)
#[kani::proof]
#[kani::unwind(2)]
fn c16_update_step_int_column() {
    let kind: u8 = kani::any();
    kani::assume(kind < 5);
    let g = any_g();
    let mut s = any_state();
    kani::assume(inv(&s, &g, kind));
    let is_null: bool = kani::any();
    let i: i64 = kani::any();
    let cell = if is_null { Value::Null } else { Value::Int(i) };
    let mut g2 = g;
    g2.rows += 1;
    if !is_null {
        g2.nonnull += 1;
        g2.isum += i as i128;
        g2.min = Some(match g.min { Some(m) => if i < m { i } else { m }, None => i });
        g2.max = Some(match g.max { Some(m) => if i > m { i } else { m }, None => i });
    }
    // the exact sum stays representable (overflow is the separate known-finding obligation)
    kani::assume(g2.isum >= i64::MIN as i128 && g2.isum <= i64::MAX as i128);
    let cells = [cell];
    let row = ExecutorRow::new(&cells);
    s.update(&func(kind), &row);
    assert!(inv(&s, &g2, kind));
    let c1 = is_null & (kind == 1);
    kani::cover!(c1);
    let c2 = !is_null & (kind == 3) & g.min.is_some();
    kani::cover!(c2);
}

//@ props=C16 kind=proof
/// finalize on a state with Inv returns what SQL defines from the summary: COUNT(*) = rows; MIN/MAX/AVG =
/// NULL on zero non-NULL inputs, otherwise min / max / exact_sum / n; SUM = exact sum when there was at
/// least one non-NULL input (empty-input SUM is the known finding F-C16-1)
#[kani::proof]
#[kani::unwind(2)]
fn c16_finalize_int_column() {
    let kind: u8 = kani::any();
    kani::assume(kind < 5);
    let g = any_g();
    let s = any_state();
    kani::assume(inv(&s, &g, kind));
    let out = s.finalize(&func(kind));
    match kind {
        0 => match out { Value::Int(c) => assert!(c == g.rows), _ => assert!(false) },
        1 => {
            if g.nonnull > 0 {
                match out { Value::Int(v) => assert!(v as i128 == g.isum), _ => assert!(false) }
            }
        }
        2 => {
            // AVG: NULL on zero non-NULL inputs, a Float otherwise (its exact value is the separate
            // obligation c16_finalize_avg_value: float division is too heavy to share this query)
            if g.nonnull == 0 {
                assert!(matches!(out, Value::Null));
            } else {
                assert!(matches!(out, Value::Float(_)));
            }
        }
        3 => match (g.min, out) { (None, Value::Null) => {}, (Some(m), Value::Int(v)) => assert!(v == m), _ => assert!(false) },
        _ => match (g.max, out) { (None, Value::Null) => {}, (Some(m), Value::Int(v)) => assert!(v == m), _ => assert!(false) },
    }
}

//@ props=C16 kind=proof
/// FLOAT-or-NULL column: MIN/MAX track the exact min/max of the non-NaN inputs and NULLs are ignored;
/// COUNT(*) counts rows.  (Float SUM/AVG are "up to rounding" and not claimed.)
#[kani::proof]
#[kani::unwind(2)]
fn c16_update_step_float_minmax() {
    let is_max: bool = kani::any();
    let cur: Option<f64> = kani::any();
    if let Some(c) = cur { kani::assume(!c.is_nan()); }
    let mut s = any_state();
    kani::assume(s.min_int.is_none() && s.max_int.is_none());
    if is_max { kani::assume(s.max_float == cur); } else { kani::assume(s.min_float == cur); }
    let is_null: bool = kani::any();
    let f: f64 = kani::any();
    kani::assume(!f.is_nan());
    let cells = [if is_null { Value::Null } else { Value::Float(f) }];
    let row = ExecutorRow::new(&cells);
    let fun = if is_max { AggregateFunction::Max { column: 0 } } else { AggregateFunction::Min { column: 0 } };
    s.update(&fun, &row);
    let now = if is_max { s.max_float } else { s.min_float };
    let expect = if is_null { cur } else {
        Some(match cur { None => f, Some(c) => if is_max { if f > c { f } else { c } } else { if f < c { f } else { c } } })
    };
    match (now, expect) {
        (None, None) => {}
        (Some(a), Some(b)) => assert!(a == b),
        _ => assert!(false),
    }
    assert!(s.min_int.is_none() && s.max_int.is_none());
    let out = s.finalize(&fun);
    match (expect, out) { (None, Value::Null) => {}, (Some(b), Value::Float(v)) => assert!(v == b), _ => assert!(false) }
}

//@ props=C16 kind=bounded bound="|sum| <= 4096 and 1 <= count <= 64 (float division bit-blasted by CBMC)" timeout=900
/// AVG value: finalize(Avg) == exact_sum / n evaluated in f64, for small sums and counts
#[kani::proof]
#[kani::unwind(2)]
fn c16_finalize_avg_value() {
    let g = any_g();
    kani::assume(g.nonnull >= 1 && g.nonnull <= 64 && g.isum >= -4096 && g.isum <= 4096);
    let s = any_state();
    kani::assume(inv(&s, &g, 2));
    match s.finalize(&func(2)) {
        Value::Float(f) => assert!(f == (g.isum as i64) as f64 / (g.nonnull as f64)),
        _ => assert!(false),
    }
}

//@ props=C16 kind=known finding=F-C16-1
/// KNOWN FINDING F-C16-1: SUM over zero non-NULL inputs must be NULL (it is Int(0))
#[kani::proof]
#[kani::unwind(2)]
fn c16_known_sum_empty_is_null() {
    let s = AggregateState::new();
    let out = s.finalize(&AggregateFunction::Sum { column: 0 });
    assert!(matches!(out, Value::Null));
}

//@ props=C16 kind=known finding=F-C16-2
/// KNOWN FINDING F-C16-2: integer SUM/AVG accumulation must not wrap or panic when the exact sum leaves
/// i64 (update uses `self.sum += i`)
#[kani::proof]
#[kani::unwind(2)]
fn c16_known_sum_overflow() {
    let mut s = AggregateState::new();
    s.sum = kani::any();
    let i: i64 = kani::any();
    let cells = [Value::Int(i)];
    let row = ExecutorRow::new(&cells);
    s.update(&AggregateFunction::Sum { column: 0 }, &row); // Kani's overflow check on `+=` is the obligation
}

//@ props=C16 kind=known finding=F-C16-3
/// KNOWN FINDING F-C16-3: a column mixing Int and Float values: SUM(1, 2.5) must be 3.5 (it is Int(1))
#[kani::proof]
#[kani::unwind(2)]
fn c16_known_mixed_int_float_sum() {
    let mut s = AggregateState::new();
    let f = AggregateFunction::Sum { column: 0 };
    let c1 = [Value::Int(1)];
    s.update(&f, &ExecutorRow::new(&c1));
    let c2 = [Value::Float(2.5)];
    s.update(&f, &ExecutorRow::new(&c2));
    match s.finalize(&f) { Value::Float(v) => assert!(v == 3.5), _ => assert!(false) }
}

//@ props=C16 kind=mustfail
/// MUST FAIL (vacuity guard): "MIN ignores its input"
#[kani::proof]
#[kani::unwind(2)]
fn c16_mustfail_min_unchanged() {
    let mut s = AggregateState::new();
    let i: i64 = kani::any();
    let cells = [Value::Int(i)];
    s.update(&AggregateFunction::Min { column: 0 }, &ExecutorRow::new(&cells));
    assert!(s.min_int.is_none());
}
