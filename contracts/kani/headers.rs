// C23 contracts for src/storage/headers.rs — file-header decoders on arbitrary bytes
use super::*;
use crate::verif_stubs as vs;

//@ props=C23 kind=proof
/// MetaFileHeader / TableFileHeader / IndexFileHeader::from_bytes on ANY byte string of length 0..=160:
/// Ok or Err, no panic / OOB; Ok only when the buffer holds at least FILE_HEADER_SIZE bytes and the
/// magic matches (so truncated or foreign files are rejected)
#[kani::proof]
#[kani::unwind(18)]
#[kani::stub(eyre::capture_handler, vs::capture_handler)]
#[kani::stub(eyre::private::new_adhoc, vs::new_adhoc)]
#[kani::stub(eyre::private::format_err, vs::format_err)]
#[kani::stub(alloc::fmt::format, vs::format)]
fn c23_file_headers_total() {
    let bytes: [u8; 160] = kani::any();
    let len: usize = kani::any();
    kani::assume(len <= 160);
    let b = &bytes[..len];
    let m = vs::is_ok_forget(MetaFileHeader::from_bytes(b)).is_some();
    let t = vs::is_ok_forget(TableFileHeader::from_bytes(b)).is_some();
    let i = vs::is_ok_forget(IndexFileHeader::from_bytes(b)).is_some();
    if len < FILE_HEADER_SIZE { assert!(!m && !t && !i); }
    // a buffer cannot be two different file kinds at once (distinct magics)
    assert!(!(m && t) && !(m && i) && !(t && i));
    kani::cover!(m);
    kani::cover!(t);
    kani::cover!(i);
}
