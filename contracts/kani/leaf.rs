// C23 (decoder safety) contracts for src/btree/leaf.rs — accessors on ANY 16 KiB of page bytes.
use super::*;
use crate::verif_stubs as vs;

macro_rules! stubs {
    ($($item:item)*) => { $(
        #[kani::stub(eyre::capture_handler, vs::capture_handler)]
        #[kani::stub(eyre::private::new_adhoc, vs::new_adhoc)]
        #[kani::stub(eyre::private::format_err, vs::format_err)]
        #[kani::stub(alloc::fmt::format, vs::format)]
        $item
    )* };
}

#[repr(C, align(64))]
struct Pg([u8; PAGE_SIZE]);

stubs! {
//@ props=C23 kind=bounded small_pages=1 bound="PAGE_SIZE scaled to 256 bytes by cfg(kahflane_turdb_verif_small_pages); every page byte and index symbolic" timeout=900
/// LeafNode on arbitrary page bytes: from_page returns Ok/Err; for any index, slot_at / key_at /
/// value_at / value_len_at return Ok or Err and never panic, overflow or read outside the page
/// (every returned slice is a sub-slice of the page by construction; Kani's bounds/overflow checks
/// are the obligation)
#[kani::proof]
#[kani::unwind(12)]
fn c23_leaf_accessors_total() {
    let pg = Pg(kani::any());
    let idx: usize = kani::any();
    if let Some(leaf) = vs::is_ok_forget(LeafNode::from_page(&pg.0[..])) {
        let _ = leaf.cell_count(); // any cell_count, including corrupted ones larger than the slot area
        let _ = leaf.free_space();
        let _ = leaf.next_leaf();
        let s = vs::is_ok_forget(leaf.slot_at(idx)).is_some();
        let k = vs::is_ok_forget(leaf.key_at(idx));
        if let Some(kk) = k { assert!(kk.len() <= PAGE_SIZE); }
        let v = vs::is_ok_forget(leaf.value_at(idx));
        if let Some(vv) = v { assert!(vv.len() <= PAGE_SIZE); }
        let _ = vs::is_ok_forget(leaf.value_len_at(idx));
        kani::cover!(s);
    }
    // wrong-size input is rejected, not sliced
    let n: usize = kani::any();
    kani::assume(n < PAGE_SIZE);
    assert!(vs::is_ok_forget(LeafNode::from_page(&pg.0[..n])).is_none());
}
}
