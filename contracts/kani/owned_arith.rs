// C20 contracts for src/types/owned_value.rs — OwnedValue::eval_arithmetic (the UPDATE ... SET x = x + 1 evaluator)
use super::*;

fn exact(a: i64, op: ArithmeticOp, b: i64) -> Option<i64> {
    match op {
        ArithmeticOp::Plus => a.checked_add(b),
        ArithmeticOp::Minus => a.checked_sub(b),
        ArithmeticOp::Multiply => a.checked_mul(b),
        ArithmeticOp::Divide => a.checked_div(b),
    }
}

//@ props=C20 kind=proof timeout=900
/// Int (+,-,*) Int over ALL i64 pairs whose mathematical result is an i64: exactly that result; division by
/// zero yields NULL (None) for every dividend; a NULL operand yields NULL
#[kani::proof]
#[kani::unwind(2)]
fn c20_owned_arith_exact_when_representable() {
    let (a, b): (i64, i64) = (kani::any(), kani::any());
    let w: u8 = kani::any();
    kani::assume(w < 3);
    let op = match w { 0 => ArithmeticOp::Plus, 1 => ArithmeticOp::Minus, _ => ArithmeticOp::Multiply };
    let e = exact(a, op, b);
    kani::assume(e.is_some());
    match OwnedValue::eval_arithmetic(&OwnedValue::Int(a), op, &OwnedValue::Int(b)) {
        Some(OwnedValue::Int(g)) => assert!(Some(g) == e),
        _ => assert!(false),
    }
    assert!(OwnedValue::eval_arithmetic(&OwnedValue::Int(a), ArithmeticOp::Divide, &OwnedValue::Int(0)).is_none());
    assert!(OwnedValue::eval_arithmetic(&OwnedValue::Null, op, &OwnedValue::Int(b)).is_none());
    assert!(OwnedValue::eval_arithmetic(&OwnedValue::Int(a), op, &OwnedValue::Null).is_none());
}

//@ props=C20 kind=known finding=F-C20-2
/// KNOWN FINDING F-C20-2: OwnedValue::eval_arithmetic must report integer overflow instead of panicking
/// (debug) or wrapping (release): a + b, a - b for all i64
#[kani::proof]
#[kani::unwind(2)]
fn c20_known_owned_arith_overflow() {
    let (a, b): (i64, i64) = (kani::any(), kani::any());
    let minus: bool = kani::any();
    let op = if minus { ArithmeticOp::Minus } else { ArithmeticOp::Plus };
    let got = OwnedValue::eval_arithmetic(&OwnedValue::Int(a), op, &OwnedValue::Int(b)); // overflow check is the obligation
    if let (Some(v), Some(OwnedValue::Int(g))) = (exact(a, op, b), got) { assert!(g == v); }
}
