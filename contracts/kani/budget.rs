// C39 contracts for src/memory/budget.rs — sequential refinement only (the property's quantifier over
// interleavings is NOT decided by these obligations; see MANIFEST level_note).
use super::*;
use crate::verif_stubs as vs;
use std::sync::atomic::Ordering as O;

const MAXB: usize = isize::MAX as usize; // Rust's allocation-size bound: no tracked size can exceed it

/// an arbitrary budget state satisfying the invariant  Inv: sum(pools) <= limit <= isize::MAX
fn any_budget() -> (MemoryBudget, [usize; 5], usize) {
    let lim: usize = kani::any();
    kani::assume(lim >= MIN_BUDGET_FLOOR && lim <= MAXB);
    let u: [usize; 5] = kani::any();
    kani::assume(u[0] <= lim && u[1] <= lim && u[2] <= lim && u[3] <= lim && u[4] <= lim);
    let sum = (u[0] as u128) + (u[1] as u128) + (u[2] as u128) + (u[3] as u128) + (u[4] as u128);
    kani::assume(sum <= lim as u128);
    let b = MemoryBudget::with_limit(lim);
    assert!(b.total_limit() == lim);
    assert!(b.total_used() == 0); // with_limit starts empty (base case of the induction)
    b.cache_used.store(u[0], O::Release);
    b.query_used.store(u[1], O::Release);
    b.recovery_used.store(u[2], O::Release);
    b.schema_used.store(u[3], O::Release);
    b.shared_used.store(u[4], O::Release);
    (b, u, lim)
}
fn any_pool() -> (Pool, usize) {
    let k: u8 = kani::any();
    kani::assume(k < 5);
    (match k { 0 => Pool::Cache, 1 => Pool::Query, 2 => Pool::Recovery, 3 => Pool::Schema, _ => Pool::Shared }, k as usize)
}
fn counters(b: &MemoryBudget) -> [usize; 5] {
    [b.cache_used.load(O::Acquire), b.query_used.load(O::Acquire), b.recovery_used.load(O::Acquire),
     b.schema_used.load(O::Acquire), b.shared_used.load(O::Acquire)]
}

//@ props=C39 kind=proof
/// step contract of allocate over an ARBITRARY state with Inv (sum <= limit): either Err and all five
/// counters unchanged, or Ok and exactly the named pool grew by `bytes`, every other pool unchanged, and
/// Inv still holds (total_used <= limit).  By induction from with_limit (all zero) this gives
/// "successful allocations never bring usage above the limit" and "pool usage == allocations - releases"
/// for every sequential history.
#[kani::proof]
#[kani::unwind(2)]
#[kani::stub(eyre::capture_handler, vs::capture_handler)]
#[kani::stub(eyre::private::new_adhoc, vs::new_adhoc)]
#[kani::stub(eyre::private::format_err, vs::format_err)]
#[kani::stub(alloc::fmt::format, vs::format)]
fn c39_allocate_step() {
    let (b, u, lim) = any_budget();
    let (pool, k) = any_pool();
    let bytes: usize = kani::any();
    kani::assume(bytes <= MAXB);
    let ok = vs::is_ok_forget(b.allocate(pool, bytes)).is_some();
    let c = counters(&b);
    let w: usize = kani::any();
    kani::assume(w < 5);
    if ok {
        if w == k { assert!(c[w] == u[w] + bytes); } else { assert!(c[w] == u[w]); }
        assert!(b.total_used() <= lim);
        assert!(b.total_used() == u[0] + u[1] + u[2] + u[3] + u[4] + bytes);
    } else {
        assert!(c[w] == u[w]);
        assert!(bytes > 0);
    }
    assert!(b.total_limit() == lim);
    kani::cover!(ok && bytes > 0);
    kani::cover!(!ok);
}

//@ props=C39 kind=proof
/// step contract of release: exactly the named pool shrinks by min(bytes, used) (saturating), other
/// pools and the limit unchanged; hence Inv is preserved and releasing what was allocated returns to 0
#[kani::proof]
#[kani::unwind(2)]
fn c39_release_step() {
    let (b, u, lim) = any_budget();
    let (pool, k) = any_pool();
    let bytes: usize = kani::any();
    b.release(pool, bytes);
    let c = counters(&b);
    let w: usize = kani::any();
    kani::assume(w < 5);
    if w == k {
        assert!(c[w] == if bytes <= u[w] { u[w] - bytes } else { 0 });
    } else {
        assert!(c[w] == u[w]);
    }
    assert!(b.total_limit() == lim);
    assert!(b.total_used() <= lim);
}

//@ props=C39 kind=proof
/// allocate then release of the same amount on the same pool restores every counter (usage returns to
/// its previous value; from the empty budget: to zero)
#[kani::proof]
#[kani::unwind(2)]
#[kani::stub(eyre::capture_handler, vs::capture_handler)]
#[kani::stub(eyre::private::new_adhoc, vs::new_adhoc)]
#[kani::stub(eyre::private::format_err, vs::format_err)]
#[kani::stub(alloc::fmt::format, vs::format)]
fn c39_allocate_release_roundtrip() {
    let (b, u, _lim) = any_budget();
    let (pool, _k) = any_pool();
    let bytes: usize = kani::any();
    kani::assume(bytes <= MAXB);
    if vs::is_ok_forget(b.allocate(pool, bytes)).is_some() {
        b.release(pool, bytes);
        let c = counters(&b);
        let w: usize = kani::any();
        kani::assume(w < 5);
        assert!(c[w] == u[w]);
    }
}

//@ props=C39 kind=proof
/// total_used / shared_available / available are consistent views: total_used == sum of pools;
/// shared_available <= limit - total_used whenever reserved pools are within their reservations
#[kani::proof]
#[kani::unwind(2)]
fn c39_views() {
    let (b, u, lim) = any_budget();
    assert!(b.total_used() == u[0] + u[1] + u[2] + u[3] + u[4]);
    let sa = b.shared_available();
    assert!(sa <= lim);
    let (pool, k) = any_pool();
    let av = b.available(pool);
    assert!(av >= sa);
    let _ = k;
}

//@ props=C39 kind=mustfail
/// MUST FAIL (vacuity guard): "allocate always succeeds"
#[kani::proof]
#[kani::unwind(2)]
#[kani::stub(eyre::capture_handler, vs::capture_handler)]
#[kani::stub(eyre::private::new_adhoc, vs::new_adhoc)]
#[kani::stub(eyre::private::format_err, vs::format_err)]
#[kani::stub(alloc::fmt::format, vs::format)]
fn c39_mustfail_always_ok() {
    let (b, _u, _lim) = any_budget();
    let (pool, _k) = any_pool();
    let bytes: usize = kani::any();
    kani::assume(bytes <= MAXB);
    assert!(vs::is_ok_forget(b.allocate(pool, bytes)).is_some());
}
