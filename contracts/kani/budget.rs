// C39 contracts for src/memory/budget.rs — sequential refinement only (the property's quantifier over
// interleavings is NOT decided by these obligations; see MANIFEST level_note).
use super::*;
use crate::verif_stubs as vs;
use std::sync::atomic::Ordering as O;

const MAXB: usize = isize::MAX as usize; // Rust's allocation-size bound: no tracked size can exceed it

/// an arbitrary budget state satisfying the invariant  Inv: sum(pools) <= limit <= isize::MAX
fn any_budget() -> (MemoryBudget, [usize; 5], usize) {
    let lim: usize = kani::any();
    kani::assume(lim >= MIN_BUDGET_FLOOR && lim <= MAXB);
    let u: [usize; 5] = kani::any();
    kani::assume(u[0] <= lim && u[1] <= lim && u[2] <= lim && u[3] <= lim && u[4] <= lim);
    let sum = (u[0] as u128) + (u[1] as u128) + (u[2] as u128) + (u[3] as u128) + (u[4] as u128);
    kani::assume(sum <= lim as u128);
    let b = MemoryBudget::with_limit(lim);
    assert!(b.total_limit() == lim);
    assert!(b.total_used() == 0); // with_limit starts empty (base case of the induction)
    b.cache_used.store(u[0], O::Release);
    b.query_used.store(u[1], O::Release);
    b.recovery_used.store(u[2], O::Release);
    b.schema_used.store(u[3], O::Release);
    b.shared_used.store(u[4], O::Release);
    (b, u, lim)
}
fn any_pool() -> (Pool, usize) {
    let k: u8 = kani::any();
    kani::assume(k < 5);
    (match k { 0 => Pool::Cache, 1 => Pool::Query, 2 => Pool::Recovery, 3 => Pool::Schema, _ => Pool::Shared }, k as usize)
}
fn counters(b: &MemoryBudget) -> [usize; 5] {
    [b.cache_used.load(O::Acquire), b.query_used.load(O::Acquire), b.recovery_used.load(O::Acquire),
     b.schema_used.load(O::Acquire), b.shared_used.load(O::Acquire)]
}

//@ props=C39 kind=proof
/// step contract of allocate over an ARBITRARY state with Inv (sum <= limit): either Err and all five
/// counters unchanged, or Ok and exactly the named pool grew by `bytes`, every other pool unchanged, and
/// Inv still holds (total_used <= limit).  By induction from with_limit (all zero) this gives
/// "successful allocations never bring usage above the limit" and "pool usage == allocations - releases"
/// for every sequential history.
#[kani::proof]
#[kani::unwind(2)]
#[kani::stub(eyre::capture_handler, vs::capture_handler)]
#[kani::stub(eyre::private::new_adhoc, vs::new_adhoc)]
#[kani::stub(eyre::private::format_err, vs::format_err)]
#[kani::stub(alloc::fmt::format, vs::format)]
fn c39_allocate_step() {
    let (b, u, lim) = any_budget();
    let (pool, k) = any_pool();
    let bytes: usize = kani::any();
    kani::assume(bytes <= MAXB);
    let ok = vs::is_ok_forget(b.allocate(pool, bytes)).is_some();
    let c = counters(&b);
    let w: usize = kani::any();
    kani::assume(w < 5);
    if ok {
        if w == k { assert!(c[w] == u[w] + bytes); } else { assert!(c[w] == u[w]); }
        assert!(b.total_used() <= lim);
        assert!(b.total_used() == u[0] + u[1] + u[2] + u[3] + u[4] + bytes);
    } else {
        assert!(c[w] == u[w]);
        assert!(bytes > 0);
    }
    assert!(b.total_limit() == lim);
    kani::cover!(ok && bytes > 0);
    kani::cover!(!ok);
}

//@ props=C39 kind=proof
/// step contract of release: exactly the named pool shrinks by min(bytes, used) (saturating), other
/// pools and the limit unchanged; hence Inv is preserved and releasing what was allocated returns to 0
#[kani::proof]
#[kani::unwind(2)]
fn c39_release_step() {
    let (b, u, lim) = any_budget();
    let (pool, k) = any_pool();
    let bytes: usize = kani::any();
    b.release(pool, bytes);
    let c = counters(&b);
    let w: usize = kani::any();
    kani::assume(w < 5);
    if w == k {
        assert!(c[w] == if bytes <= u[w] { u[w] - bytes } else { 0 });
    } else {
        assert!(c[w] == u[w]);
    }
    assert!(b.total_limit() == lim);
    assert!(b.total_used() <= lim);
}

//@ props=C39 kind=proof
/// allocate then release of the same amount on the same pool restores every counter (usage returns to
/// its previous value; from the empty budget: to zero)
#[kani::proof]
#[kani::unwind(2)]
#[kani::stub(eyre::capture_handler, vs::capture_handler)]
#[kani::stub(eyre::private::new_adhoc, vs::new_adhoc)]
#[kani::stub(eyre::private::format_err, vs::format_err)]
#[kani::stub(alloc::fmt::format, vs::format)]
fn c39_allocate_release_roundtrip() {
    let (b, u, _lim) = any_budget();
    let (pool, _k) = any_pool();
    let bytes: usize = kani::any();
    kani::assume(bytes <= MAXB);
    if vs::is_ok_forget(b.allocate(pool, bytes)).is_some() {
        b.release(pool, bytes);
        let c = counters(&b);
        let w: usize = kani::any();
        kani::assume(w < 5);
        assert!(c[w] == u[w]);
    }
}

//@ props=C39 kind=proof
/// total_used / shared_available / available are consistent views: total_used == sum of pools;
/// shared_available <= limit - total_used whenever reserved pools are within their reservations
#[kani::proof]
#[kani::unwind(2)]
fn c39_views() {
    let (b, u, lim) = any_budget();
    assert!(b.total_used() == u[0] + u[1] + u[2] + u[3] + u[4]);
    let sa = b.shared_available();
    assert!(sa <= lim);
    let (pool, k) = any_pool();
    let av = b.available(pool);
    assert!(av >= sa);
    let _ = k;
}

//@ props=C39 kind=mustfail
/// MUST FAIL (vacuity guard): "allocate always succeeds"
#[kani::proof]
#[kani::unwind(2)]
#[kani::stub(eyre::capture_handler, vs::capture_handler)]
#[kani::stub(eyre::private::new_adhoc, vs::new_adhoc)]
#[kani::stub(eyre::private::format_err, vs::format_err)]
#[kani::stub(alloc::fmt::format, vs::format)]
fn c39_mustfail_always_ok() {
    let (b, _u, _lim) = any_budget();
    let (pool, _k) = any_pool();
    let bytes: usize = kani::any();
    kani::assume(bytes <= MAXB);
    assert!(vs::is_ok_forget(b.allocate(pool, bytes)).is_some());
}

// ------------------------------------------------------------------------------------------------
// PeriodicBudgetTracker: the tracker's claim on the budget (what Drop will release) always equals what
// it successfully allocated — otherwise releasing "everything" does not return the pool to its old level
// ------------------------------------------------------------------------------------------------

/// an arbitrary tracker state over `b` with the invariant  last_reported <= total  and
/// pool counter >= last_reported (what the tracker holds is really allocated)
fn any_tracker<'a>(b: &'a MemoryBudget, pool: Pool, k: usize, u: &[usize; 5]) -> PeriodicBudgetTracker<'a> {
    let mut t = PeriodicBudgetTracker::new(b, pool);
    let (total, last): (usize, usize) = (kani::any(), kani::any());
    kani::assume(last <= total && total <= (1usize << 60) && last <= u[k]);
    t.total_bytes = total;
    t.last_reported_bytes = last;
    t
}

//@ props=C39 kind=proof
/// track(bytes) step: on Ok the pool grew by exactly (last_reported' - last_reported) — the tracker's claim
/// moves in lock-step with its successful allocations; other pools untouched
#[kani::proof]
#[kani::unwind(2)]
#[kani::stub(eyre::capture_handler, vs::capture_handler)]
#[kani::stub(eyre::private::new_adhoc, vs::new_adhoc)]
#[kani::stub(eyre::private::format_err, vs::format_err)]
#[kani::stub(alloc::fmt::format, vs::format)]
fn c39_tracker_track_step() {
    let (b, u, _lim) = any_budget();
    let (pool, k) = any_pool();
    let mut t = any_tracker(&b, pool, k, &u);
    let last0 = t.last_reported_bytes;
    let bytes: usize = kani::any();
    kani::assume(bytes <= 1 << 40);
    let ok = vs::is_ok_forget(t.track(bytes)).is_some();
    let c = counters(&b);
    let w: usize = kani::any();
    kani::assume(w < 5);
    if ok {
        if w == k { assert!(c[w] - u[w] == t.last_reported_bytes - last0); } else { assert!(c[w] == u[w]); }
        assert!(t.tracked_bytes() == t.last_reported_bytes);
    } else {
        assert!(c[w] == u[w] && t.last_reported_bytes == last0);
    }
    core::mem::forget(t);
}

//@ props=C39 kind=proof
/// pre_allocate(bytes) step: on Ok the pool grew by exactly `bytes` and so did the tracker's claim
/// (last_reported' - last_reported == bytes); on Err nothing moved
#[kani::proof]
#[kani::unwind(2)]
#[kani::stub(eyre::capture_handler, vs::capture_handler)]
#[kani::stub(eyre::private::new_adhoc, vs::new_adhoc)]
#[kani::stub(eyre::private::format_err, vs::format_err)]
#[kani::stub(alloc::fmt::format, vs::format)]
fn c39_tracker_pre_allocate_step() {
    let (b, u, _lim) = any_budget();
    let (pool, k) = any_pool();
    let mut t = any_tracker(&b, pool, k, &u);
    let last0 = t.last_reported_bytes;
    let bytes: usize = kani::any();
    kani::assume(bytes <= 1 << 40);
    let ok = vs::is_ok_forget(t.pre_allocate(bytes)).is_some();
    let c = counters(&b);
    if ok {
        assert!(c[k] - u[k] == bytes);
        assert!(t.last_reported_bytes - last0 == bytes);
    } else {
        assert!(c[k] == u[k] && t.last_reported_bytes == last0);
    }
    core::mem::forget(t);
}

//@ props=C39 kind=proof
/// Drop releases exactly the tracker's claim: the pool drops by last_reported_bytes, other pools untouched
#[kani::proof]
#[kani::unwind(2)]
fn c39_tracker_drop_releases_claim() {
    let (b, u, _lim) = any_budget();
    let (pool, k) = any_pool();
    let t = any_tracker(&b, pool, k, &u);
    let claim = t.last_reported_bytes;
    drop(t);
    let c = counters(&b);
    let w: usize = kani::any();
    kani::assume(w < 5);
    if w == k { assert!(c[w] == u[w] - claim); } else { assert!(c[w] == u[w]); }
}
