// C20 contracts for src/sql/functions/numeric.rs — integer kernels of the numeric SQL functions
use super::*;

//@ props=C20 kind=proof
/// ABS / SIGN / CEIL / FLOOR on every i64 (ABS minus i64::MIN, which is F-C20-3) and NULL: ABS(n) = |n|,
/// SIGN(n) in {-1,0,1} with the sign of n, CEIL(n) = FLOOR(n) = n for integers, NULL in => NULL out;
/// SIGN of every non-NaN float has the float's sign
#[kani::proof]
#[kani::unwind(2)]
fn c20_abs_sign_ceil_floor_int() {
    let n: i64 = kani::any();
    let a = [Some(Value::Int(n))];
    if n != i64::MIN {
        assert!(matches!(eval_abs(&a), Some(Value::Int(r)) if r >= 0 && (r == n || r == -n)));
    }
    assert!(matches!(eval_sign(&a), Some(Value::Int(s)) if (s == 1) == (n > 0) && (s == -1) == (n < 0) && (s == 0) == (n == 0)));
    assert!(matches!(eval_ceil(&a), Some(Value::Int(r)) if r == n));
    assert!(matches!(eval_floor(&a), Some(Value::Int(r)) if r == n));
    let nul = [Some(Value::Null)];
    assert!(matches!(eval_abs(&nul), Some(Value::Null)) && matches!(eval_sign(&nul), Some(Value::Null)));
    assert!(matches!(eval_ceil(&nul), Some(Value::Null)) && matches!(eval_floor(&nul), Some(Value::Null)));
    let f: f64 = kani::any();
    kani::assume(!f.is_nan());
    let fa = [Some(Value::Float(f))];
    assert!(matches!(eval_sign(&fa), Some(Value::Int(s)) if (s == 1) == (f > 0.0) && (s == -1) == (f < 0.0)));
    assert!(matches!(eval_abs(&fa), Some(Value::Float(r)) if r >= 0.0 && (r == f || r == -f)));
}

//@ props=C20 kind=proof
/// DIV(a, 0) and MOD(a, 0) are NULL for every integer a (division by zero yields NULL); NULL operands
/// give no value
#[kani::proof]
#[kani::unwind(4)]
fn c20_div_mod_functions_by_zero() {
    let n: i64 = kani::any();
    let a = [Some(Value::Int(n)), Some(Value::Int(0))];
    assert!(matches!(eval_div(&a), Some(Value::Null)));
    assert!(matches!(eval_mod(&a), Some(Value::Null)));
    let b = [Some(Value::Null), Some(Value::Int(n))];
    assert!(matches!(eval_div(&b), None | Some(Value::Null)));
    assert!(matches!(eval_mod(&b), None | Some(Value::Null)));
}

//@ props=C20 kind=known finding=F-C20-3
/// KNOWN FINDING F-C20-3: ABS(i64::MIN) and DIV(i64::MIN, -1) must report an error or NULL, not panic
/// (debug) / wrap (release)
#[kani::proof]
#[kani::unwind(2)]
fn c20_known_abs_div_min_overflow() {
    let which: bool = kani::any();
    if which {
        let a = [Some(Value::Int(i64::MIN))];
        let _ = eval_abs(&a); // Kani's overflow check on `abs` is the obligation
    } else {
        let a = [Some(Value::Int(i64::MIN)), Some(Value::Int(-1))];
        let _ = eval_div(&a);
    }
}

//@ props=C20 kind=proof
/// DIV with unit divisors is exact on every i64: DIV(a, 1) == a and DIV(a, -1) == -a (a != i64::MIN) — the
/// quotient is computed in integer arithmetic, not through a lossy float round trip
#[kani::proof]
#[kani::unwind(4)]
fn c20_div_function_unit_divisors() {
    let a: i64 = kani::any();
    let one = [Some(Value::Int(a)), Some(Value::Int(1))];
    assert!(matches!(eval_div(&one), Some(Value::Int(q)) if q == a));
    kani::assume(a != i64::MIN);
    let neg = [Some(Value::Int(a)), Some(Value::Int(-1))];
    assert!(matches!(eval_div(&neg), Some(Value::Int(q)) if q == -a));
}
