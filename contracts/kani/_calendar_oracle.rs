// Shared oracle for C41/C20 (included with `include!` by the three calendar contract modules).
// The proleptic Gregorian calendar as a *successor relation* — not any closed form:
//   leap(y)  <=>  y divisible by 4 and (not by 100 or by 400)
//   month lengths 31,28/29,31,30,31,30,31,31,30,31,30,31
//   next(y,m,d) = (y,m,d+1) | (y,m+1,1) | (y+1,1,1)
// A function F is "the day number" iff F(1970,1,1) == anchor and F(next(x)) == F(x) + 1 for every
// valid date x; by induction over days (both directions from the anchor) this determines F on all
// valid dates of years 1..=9999.  Each converter is proved against this relation separately, which
// is what makes "every converter agrees on the day number of every date" a theorem.
#[allow(dead_code)]
fn o_leap(y: i64) -> bool {
    if y % 400 == 0 { true } else if y % 100 == 0 { false } else { y % 4 == 0 }
}
#[allow(dead_code)]
fn o_dim(y: i64, m: u32) -> u32 {
    match m {
        1 => 31, 2 => if o_leap(y) { 29 } else { 28 }, 3 => 31, 4 => 30, 5 => 31, 6 => 30,
        7 => 31, 8 => 31, 9 => 30, 10 => 31, 11 => 30, _ => 31,
    }
}
/// an arbitrary valid date in years lo..=hi
#[allow(dead_code)]
fn o_any_date(lo: i64, hi: i64) -> (i64, u32, u32) {
    let y: i64 = kani::any();
    let m: u32 = kani::any();
    let d: u32 = kani::any();
    kani::assume(y >= lo && y <= hi);
    kani::assume(m >= 1 && m <= 12);
    kani::assume(d >= 1 && d <= o_dim(y, m));
    (y, m, d)
}
#[allow(dead_code)]
fn o_next(y: i64, m: u32, d: u32) -> (i64, u32, u32) {
    if d < o_dim(y, m) { (y, m, d + 1) } else if m < 12 { (y, m + 1, 1) } else { (y + 1, 1, 1) }
}
