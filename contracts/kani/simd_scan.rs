// C30 contracts for src/btree/simd_scan.rs — leaf key search == reference search (bounded, scaled pages)
use super::*;

const N: usize = 9; // max slots in a harness page

#[repr(C, align(8))]
struct Pg([u8; PAGE_SIZE]);

fn rd_slot(pg: &Pg, i: usize) -> (u32, usize, usize) {
    let o = LEAF_CONTENT_START + i * SLOT_SIZE;
    let prefix = u32::from_be_bytes([pg.0[o], pg.0[o + 1], pg.0[o + 2], pg.0[o + 3]]);
    let off = u16::from_le_bytes([pg.0[o + 4], pg.0[o + 5]]) as usize;
    let kl = u16::from_le_bytes([pg.0[o + 6], pg.0[o + 7]]) as usize;
    (prefix, off, kl)
}
/// lexicographic compare of page key i (at off, len kl <= 5) with probe (len <= 5)
fn cmp_key(pg: &Pg, off: usize, kl: usize, probe: &[u8]) -> core::cmp::Ordering {
    let mut j = 0;
    while j < 5 {
        if j >= kl || j >= probe.len() { break; }
        let a = pg.0[off + j];
        let b = probe[j];
        if a < b { return core::cmp::Ordering::Less; }
        if a > b { return core::cmp::Ordering::Greater; }
        j += 1;
    }
    kl.cmp(&probe.len())
}
/// well-formed leaf slot array with n slots: cells inside the page, key_len in 1..=5, slot prefix ==
/// extract_prefix(key), keys strictly increasing
fn assume_wf(pg: &Pg, n: usize) {
    let mut i = 0;
    while i < N {
        if i < n {
            let (p, off, kl) = rd_slot(pg, i);
            kani::assume(kl >= 1 && kl <= 5 && off >= LEAF_CONTENT_START + N * SLOT_SIZE && off + kl <= PAGE_SIZE);
            let pre = extract_prefix(&pg.0[off..off + kl]);
            kani::assume(p == u32::from_be_bytes(pre));
            if i + 1 < n {
                let (_p2, off2, kl2) = rd_slot(pg, i + 1);
                kani::assume(kl2 >= 1 && kl2 <= 5 && off2 + kl2 <= PAGE_SIZE && off2 >= LEAF_CONTENT_START + N * SLOT_SIZE);
                kani::assume(cmp_key(pg, off, kl, &pg.0[off2..off2 + kl2]) == core::cmp::Ordering::Less);
            }
        }
        i += 1;
    }
}
/// reference: first index whose key >= probe; Found iff equal
fn reference(pg: &Pg, n: usize, probe: &[u8]) -> SearchResult {
    let mut i = 0;
    while i < N {
        if i < n {
            let (_p, off, kl) = rd_slot(pg, i);
            match cmp_key(pg, off, kl, probe) {
                core::cmp::Ordering::Equal => return SearchResult::Found(i),
                core::cmp::Ordering::Greater => return SearchResult::NotFound(i),
                _ => {}
            }
        }
        i += 1;
    }
    SearchResult::NotFound(n)
}

//@ props=C30 kind=bounded small_pages=1 bound="PAGE_SIZE scaled to 256 bytes; <= 9 slots; keys and probe of 1..=5 bytes" timeout=1800
/// scalar narrowing + final search: find_key on a well-formed page == reference search (this build's
/// dispatch; see the AVX2 obligation for the vector path)
#[kani::proof]
#[kani::unwind(11)]
fn c30_scalar_path_equals_reference() {
    let pg = Pg(kani::any());
    let n: usize = kani::any();
    kani::assume(n <= N);
    assume_wf(&pg, n);
    let pb: [u8; 5] = kani::any();
    let pl: usize = kani::any();
    kani::assume(pl >= 1 && pl <= 5);
    let probe = &pb[..pl];
    let target = u32::from_be_bytes(extract_prefix(probe));
    let (mut left, mut right, _m) = simd_prefix_search_scalar(&pg.0[..], target, n);
    // window invariant: every slot with prefix < target is left of `left`… stated through the answer:
    let want = reference(&pg, n, probe);
    let a = match want { SearchResult::Found(i) => i, SearchResult::NotFound(i) => i };
    right = right.min(n);
    assert!(left <= a && a <= right);
    let _ = &mut left;
}

/// stub for the private `std_detect::detect::cache::test` (CPUID via inline asm is unsupported by Kani):
/// a nondeterministic answer over-approximates every CPU, so both the AVX2 and the scalar narrowing are
/// explored by the same obligation ("regardless of CPU feature availability")
fn any_cpu_feature(_bit: u32) -> bool { kani::any() }

//@ props=C30 kind=bounded tier=manual bound="PAGE_SIZE scaled to 256 bytes; <= 9 slots; Kani's own intrinsic models (timed out at 40 min)" timeout=2400
/// end to end with Kani's own models of the AVX2 intrinsics: find_key_simd == reference search
#[kani::proof]
#[kani::stub(std_detect::detect::cache::test, any_cpu_feature)]
#[kani::unwind(34)]
fn c30_find_key_equals_reference() {
    let pg = Pg(kani::any());
    let n: usize = kani::any();
    kani::assume(n <= N);
    assume_wf(&pg, n);
    let pb: [u8; 5] = kani::any();
    let pl: usize = kani::any();
    kani::assume(pl >= 1 && pl <= 5);
    let probe = &pb[..pl];
    let got = find_key_simd(&pg.0[..], probe, n);
    assert!(got == reference(&pg, n, probe));
}

//@ props=C30 kind=bounded tier=manual bound="one AVX2 batch with Kani's own intrinsic models (timed out at 40 min)" timeout=2400
/// window invariant of the AVX2 narrowing on one batch of 8 sorted prefixes: with lb = first slot whose
/// prefix >= target and ub = first slot whose prefix > target, the returned window satisfies
/// left <= lb and ub <= right — i.e. no slot whose prefix equals the target, and not the insertion point,
/// is cut off before the final key comparison
#[cfg(target_arch = "x86_64")]
#[kani::proof]
#[kani::unwind(34)]
fn c30_avx2_window_one_batch() {
    let mut pg = [0u8; LEAF_CONTENT_START + 8 * SLOT_SIZE];
    let p: [u32; 8] = kani::any();
    let mut i = 0;
    while i < 8 {
        if i + 1 < 8 { kani::assume(p[i] <= p[i + 1]); }
        let o = LEAF_CONTENT_START + i * SLOT_SIZE;
        let b = p[i].to_be_bytes();
        pg[o] = b[0]; pg[o + 1] = b[1]; pg[o + 2] = b[2]; pg[o + 3] = b[3];
        i += 1;
    }
    let target: u32 = kani::any();
    let (l, r, _m) = unsafe { simd_prefix_search_avx2(&pg[..], target, 8) };
    let mut lb = 8usize;
    let mut ub = 8usize;
    let mut k = 8usize;
    while k > 0 {
        k -= 1;
        if p[k] >= target { lb = k; }
        if p[k] > target { ub = k; }
    }
    assert!(l <= lb);
    assert!(ub <= r.min(8));
}

// ------------------------------------------------------------------------------------------------
// Lane-wise reference definitions of the six AVX2 intrinsics the narrowing uses (Intel SDM semantics).
// Used as Kani stubs because Kani's own models of these intrinsics are too slow for CBMC here (the same
// obligation timed out at 40 min with them).  Trusted base: these 6 definitions (listed in evidence).
// ------------------------------------------------------------------------------------------------
#[cfg(target_arch = "x86_64")]
mod avx2_ref {
    use core::arch::x86_64::__m256i;
    type V = [i32; 8];
    fn to_v(a: __m256i) -> V { unsafe { core::mem::transmute(a) } }
    fn from_v(v: V) -> __m256i { unsafe { core::mem::transmute(v) } }
    pub fn set1_epi32(a: i32) -> __m256i { from_v([a; 8]) }
    pub fn xor_si256(a: __m256i, b: __m256i) -> __m256i {
        let (x, y) = (to_v(a), to_v(b));
        from_v([x[0] ^ y[0], x[1] ^ y[1], x[2] ^ y[2], x[3] ^ y[3], x[4] ^ y[4], x[5] ^ y[5], x[6] ^ y[6], x[7] ^ y[7]])
    }
    pub unsafe fn loadu_si256(p: *const __m256i) -> __m256i { core::ptr::read_unaligned(p) }
    fn m(c: bool) -> i32 { if c { -1 } else { 0 } }
    pub fn cmpgt_epi32(a: __m256i, b: __m256i) -> __m256i {
        let (x, y) = (to_v(a), to_v(b));
        from_v([m(x[0] > y[0]), m(x[1] > y[1]), m(x[2] > y[2]), m(x[3] > y[3]), m(x[4] > y[4]), m(x[5] > y[5]), m(x[6] > y[6]), m(x[7] > y[7])])
    }
    pub fn cmpeq_epi32(a: __m256i, b: __m256i) -> __m256i {
        let (x, y) = (to_v(a), to_v(b));
        from_v([m(x[0] == y[0]), m(x[1] == y[1]), m(x[2] == y[2]), m(x[3] == y[3]), m(x[4] == y[4]), m(x[5] == y[5]), m(x[6] == y[6]), m(x[7] == y[7])])
    }
    /// bit i of the result = most significant bit of byte i; for 32-bit lanes holding 0 / -1 that is 4
    /// identical bits per lane — computed per byte as the SDM defines it
    pub fn movemask_epi8(a: __m256i) -> i32 {
        let b: [u8; 32] = unsafe { core::mem::transmute(a) };
        let bit = |i: usize| ((b[i] >> 7) as u32) << i;
        (bit(0) | bit(1) | bit(2) | bit(3) | bit(4) | bit(5) | bit(6) | bit(7) | bit(8) | bit(9) | bit(10) | bit(11)
            | bit(12) | bit(13) | bit(14) | bit(15) | bit(16) | bit(17) | bit(18) | bit(19) | bit(20) | bit(21) | bit(22)
            | bit(23) | bit(24) | bit(25) | bit(26) | bit(27) | bit(28) | bit(29) | bit(30) | bit(31)) as i32
    }
}

//@ props=C30 kind=bounded bound="one AVX2 batch: exactly 8 slots, all sorted prefix vectors and targets; intrinsics replaced by lane-wise reference definitions" timeout=1500
/// window invariant of the AVX2 narrowing on one batch of 8 sorted prefixes (see c30_avx2_window_one_batch),
/// with the six intrinsics stubbed by their lane-wise reference definitions
#[cfg(target_arch = "x86_64")]
#[kani::proof]
#[kani::stub(core::arch::x86_64::_mm256_set1_epi32, avx2_ref::set1_epi32)]
#[kani::stub(core::arch::x86_64::_mm256_xor_si256, avx2_ref::xor_si256)]
#[kani::stub(core::arch::x86_64::_mm256_loadu_si256, avx2_ref::loadu_si256)]
#[kani::stub(core::arch::x86_64::_mm256_cmpgt_epi32, avx2_ref::cmpgt_epi32)]
#[kani::stub(core::arch::x86_64::_mm256_cmpeq_epi32, avx2_ref::cmpeq_epi32)]
#[kani::stub(core::arch::x86_64::_mm256_movemask_epi8, avx2_ref::movemask_epi8)]
#[kani::unwind(10)]
fn c30_avx2_window_one_batch_ref() {
    let mut pg = [0u8; LEAF_CONTENT_START + 8 * SLOT_SIZE];
    let p: [u32; 8] = kani::any();
    let mut i = 0;
    while i < 8 {
        if i + 1 < 8 { kani::assume(p[i] <= p[i + 1]); }
        let o = LEAF_CONTENT_START + i * SLOT_SIZE;
        let b = p[i].to_be_bytes();
        pg[o] = b[0]; pg[o + 1] = b[1]; pg[o + 2] = b[2]; pg[o + 3] = b[3];
        i += 1;
    }
    let target: u32 = kani::any();
    let (l, r, _m) = unsafe { simd_prefix_search_avx2(&pg[..], target, 8) };
    let mut lb = 8usize;
    let mut ub = 8usize;
    let mut k = 8usize;
    while k > 0 {
        k -= 1;
        if p[k] >= target { lb = k; }
        if p[k] > target { ub = k; }
    }
    assert!(l <= lb);
    assert!(ub <= r.min(8));
}

macro_rules! avx2_stubs {
    ($($item:item)*) => { $(
        #[cfg(target_arch = "x86_64")]
        #[kani::proof]
        #[kani::stub(core::arch::x86_64::_mm256_set1_epi32, avx2_ref::set1_epi32)]
        #[kani::stub(core::arch::x86_64::_mm256_xor_si256, avx2_ref::xor_si256)]
        #[kani::stub(core::arch::x86_64::_mm256_loadu_si256, avx2_ref::loadu_si256)]
        #[kani::stub(core::arch::x86_64::_mm256_cmpgt_epi32, avx2_ref::cmpgt_epi32)]
        #[kani::stub(core::arch::x86_64::_mm256_cmpeq_epi32, avx2_ref::cmpeq_epi32)]
        #[kani::stub(core::arch::x86_64::_mm256_movemask_epi8, avx2_ref::movemask_epi8)]
        #[kani::stub(std_detect::detect::cache::test, any_cpu_feature)]
        $item
    )* };
}

avx2_stubs! {
//@ props=C30 kind=bounded bound="8..=16 slots (two AVX2 batches + remainder), all sorted prefix vectors and targets; intrinsics replaced by lane-wise reference definitions" timeout=1800
/// window invariant of the AVX2 narrowing over its whole loop: for every cell_count in 8..=16, every
/// sorted prefix vector and every target, left <= lb and ub <= right (lb / ub = first slot with prefix
/// >= / > target): no slot whose prefix equals the target and not the insertion point is cut off
#[kani::unwind(18)]
fn c30_avx2_window_two_batches() {
    const M: usize = 16;
    let mut pg = [0u8; LEAF_CONTENT_START + M * SLOT_SIZE];
    let p: [u32; M] = kani::any();
    let n: usize = kani::any();
    kani::assume(n >= 8 && n <= M);
    let mut i = 0;
    while i < M {
        if i + 1 < M { kani::assume(p[i] <= p[i + 1]); }
        let o = LEAF_CONTENT_START + i * SLOT_SIZE;
        let b = p[i].to_be_bytes();
        pg[o] = b[0]; pg[o + 1] = b[1]; pg[o + 2] = b[2]; pg[o + 3] = b[3];
        i += 1;
    }
    let target: u32 = kani::any();
    let (l, r, _m) = unsafe { simd_prefix_search_avx2(&pg[..], target, n) };
    let mut lb = n;
    let mut ub = n;
    let mut k = M;
    while k > 0 {
        k -= 1;
        if k < n && p[k] >= target { lb = k; }
        if k < n && p[k] > target { ub = k; }
    }
    assert!(l <= lb);
    assert!(ub <= r.min(n));
}

//@ props=C30 kind=bounded small_pages=1 tier=manual bound="PAGE_SIZE scaled to 256 bytes; <= 9 slots; keys and probe of 1..=5 bytes; CPU feature nondeterministic; intrinsics replaced by lane-wise reference definitions (timed out at 40 min)" timeout=3000
/// end to end, regardless of CPU feature availability: find_key_simd (dispatch + AVX2 or scalar narrowing +
/// final key comparison) on an arbitrary well-formed leaf slot array == reference search (first index
/// whose key >= probe; Found iff equal)
#[kani::unwind(11)]
fn c30_find_key_equals_reference_ref() {
    let pg = Pg(kani::any());
    let n: usize = kani::any();
    kani::assume(n <= N);
    assume_wf(&pg, n);
    let pb: [u8; 5] = kani::any();
    let pl: usize = kani::any();
    kani::assume(pl >= 1 && pl <= 5);
    let probe = &pb[..pl];
    let got = find_key_simd(&pg.0[..], probe, n);
    assert!(got == reference(&pg, n, probe));
}
}

avx2_stubs! {
//@ props=C30 kind=bounded small_pages=1 bound="PAGE_SIZE scaled to 256 bytes; <= 3 slots (the narrowing returns the whole range, the final binary search decides); keys and probe of 1..=5 bytes incl. keys shorter than the 4-byte prefix" timeout=1800
/// end to end on small slot arrays, regardless of CPU feature availability: find_key_simd == reference
/// search for every well-formed leaf slot array of <= 3 slots and every probe — this is the obligation
/// on the final key comparison (prefix hint equal => full keys compared, not their tails)
#[kani::unwind(8)]
fn c30_find_key_equals_reference_n3() {
    let pg = Pg(kani::any());
    let n: usize = kani::any();
    kani::assume(n <= 3);
    assume_wf3(&pg, n);
    let pb: [u8; 5] = kani::any();
    let pl: usize = kani::any();
    kani::assume(pl >= 1 && pl <= 5);
    let probe = &pb[..pl];
    let got = find_key_simd(&pg.0[..], probe, n);
    assert!(got == reference3(&pg, n, probe));
}
}

/// assume_wf / reference restricted to 3 slots (smaller unwinding)
fn assume_wf3(pg: &Pg, n: usize) {
    let mut i = 0;
    while i < 3 {
        if i < n {
            let (p, off, kl) = rd_slot(pg, i);
            kani::assume(kl >= 1 && kl <= 5 && off >= LEAF_CONTENT_START + 3 * SLOT_SIZE && off + kl <= PAGE_SIZE);
            let pre = extract_prefix(&pg.0[off..off + kl]);
            kani::assume(p == u32::from_be_bytes(pre));
            if i + 1 < n {
                let (_p2, off2, kl2) = rd_slot(pg, i + 1);
                kani::assume(kl2 >= 1 && kl2 <= 5 && off2 + kl2 <= PAGE_SIZE && off2 >= LEAF_CONTENT_START + 3 * SLOT_SIZE);
                kani::assume(cmp_key(pg, off, kl, &pg.0[off2..off2 + kl2]) == core::cmp::Ordering::Less);
            }
        }
        i += 1;
    }
}
fn reference3(pg: &Pg, n: usize, probe: &[u8]) -> SearchResult {
    let mut i = 0;
    while i < 3 {
        if i < n {
            let (_p, off, kl) = rd_slot(pg, i);
            match cmp_key(pg, off, kl, probe) {
                core::cmp::Ordering::Equal => return SearchResult::Found(i),
                core::cmp::Ordering::Greater => return SearchResult::NotFound(i),
                _ => {}
            }
        }
        i += 1;
    }
    SearchResult::NotFound(n)
}

//@ props=C30 kind=mustfail small_pages=1
/// MUST FAIL (vacuity guard): "the scalar narrowing always returns the full range"
#[kani::proof]
#[kani::unwind(11)]
fn c30_mustfail_scalar_full_range() {
    let pg = Pg(kani::any());
    let n: usize = kani::any();
    kani::assume(n <= N && n >= 4);
    assume_wf(&pg, n);
    let t: u32 = kani::any();
    let (l, r, _m) = simd_prefix_search_scalar(&pg.0[..], t, n);
    assert!(l == 0 && r == n);
}
