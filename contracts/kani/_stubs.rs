// Injected at the crate root of the overlay as `crate::verif_stubs` (cfg(kani) only).
// These are the ONLY replacements of non-TurDB code inside Kani obligations; each is listed in
// evidence.assumptions. They concern error *payloads* only: whether a function returns Ok or Err is
// decided by TurDB's own code.
#![allow(dead_code)]
use core::fmt::{Debug, Display};

pub struct H;
impl eyre::EyreHandler for H {
    fn debug(
        &self,
        _e: &(dyn std::error::Error + 'static),
        _f: &mut core::fmt::Formatter<'_>,
    ) -> core::fmt::Result {
        Ok(())
    }
}

/// stub for the private `eyre::capture_handler` (backtrace / once_cell hook → ICE in Kani)
pub fn capture_handler(_e: &(dyn std::error::Error + 'static)) -> Box<dyn eyre::EyreHandler> {
    Box::new(H)
}

/// stub for `eyre::private::new_adhoc`
pub fn new_adhoc<M>(_m: M) -> eyre::Report
where
    M: Display + Debug + Send + Sync + 'static,
{
    eyre::Report::msg("adhoc")
}

/// stub for `eyre::private::format_err`
pub fn format_err(_a: core::fmt::Arguments<'_>) -> eyre::Report {
    eyre::Report::msg("fmt")
}

/// stub for `alloc::fmt::format`
pub fn format(_a: core::fmt::Arguments<'_>) -> String {
    String::new()
}

/// Every `Err(Report)` an obligation receives is forgotten, never dropped (dropping walks eyre's
/// hand-rolled vtable, which CBMC's function-pointer over-approximation cannot get through).
pub fn is_ok_forget<T>(r: eyre::Result<T>) -> Option<T> {
    match r {
        Ok(v) => Some(v),
        Err(e) => {
            core::mem::forget(e);
            None
        }
    }
}
