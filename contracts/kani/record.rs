// C31 contracts for src/records/builder.rs (+ view.rs) — record round trip, bounded by schema shape
use super::*;
use crate::verif_stubs as vs;
use crate::records::types::{ColumnDef, DataType};
use crate::records::view::RecordView;

macro_rules! stubs {
    ($($item:item)*) => { $(
        #[kani::stub(eyre::capture_handler, vs::capture_handler)]
        #[kani::stub(eyre::private::new_adhoc, vs::new_adhoc)]
        #[kani::stub(eyre::private::format_err, vs::format_err)]
        #[kani::stub(alloc::fmt::format, vs::format)]
        $item
    )* };
}

fn schema_int4_blob() -> Schema {
    Schema::new(vec![ColumnDef::new("a", DataType::Int4), ColumnDef::new("b", DataType::Blob)])
}

/// fill a builder with row (a | NULL, blob[..l] | NULL)
fn fill(b: &mut RecordBuilder<'_>, null_a: bool, a: i32, null_b: bool, bytes: &[u8; 2], l: usize) {
    if null_a { b.set_null(0); } else { let _ = vs::is_ok_forget(b.set_int4(0, a)); }
    if null_b { b.set_null(1); } else { let _ = vs::is_ok_forget(b.set_blob(1, &bytes[..l])); }
}

stubs! {
//@ props=C31 kind=bounded bound="schema (INT4, BLOB); blob payload 0..=2 bytes; every INT4 value; every NULL mask" timeout=1500
/// build then read back: NULL flags, the INT4 value and the BLOB bytes come back unchanged through both
/// the plain getters and the `_opt` getters (a non-NULL empty blob is NOT reported as NULL)
#[kani::proof]
#[kani::unwind(6)]
fn c31_roundtrip_int4_blob() {
    let schema: &'static Schema = Box::leak(Box::new(schema_int4_blob()));
    let (null_a, null_b): (bool, bool) = (kani::any(), kani::any());
    let a: i32 = kani::any();
    let bytes: [u8; 2] = kani::any();
    let mut l = 0usize;
    while l <= 2 {
        let mut b = RecordBuilder::new(schema);
        fill(&mut b, null_a, a, null_b, &bytes, l);
        let rec = match vs::is_ok_forget(b.build()) { Some(r) => r, None => { assert!(false); return; } };
        let v = match vs::is_ok_forget(RecordView::new(&rec, schema)) { Some(v) => v, None => { assert!(false); return; } };
        assert!(v.is_null(0) == null_a && v.is_null(1) == null_b);
        if !null_a {
            assert!(vs::is_ok_forget(v.get_int4(0)) == Some(a));
            assert!(vs::is_ok_forget(v.get_int4_opt(0)) == Some(Some(a)));
        } else {
            assert!(vs::is_ok_forget(v.get_int4_opt(0)) == Some(None));
        }
        if !null_b {
            match vs::is_ok_forget(v.get_blob(1)) {
                Some(x) => { assert!(x.len() == l); if l > 0 { assert!(x[0] == bytes[0] && x[l - 1] == bytes[l - 1]); } }
                None => assert!(false),
            }
            match vs::is_ok_forget(v.get_blob_opt(1)) {
                Some(Some(x)) => assert!(x.len() == l),
                _ => assert!(false),
            }
        } else {
            assert!(matches!(vs::is_ok_forget(v.get_blob_opt(1)), Some(None)));
        }
        core::mem::forget(rec);
        core::mem::forget(b);
        l += 1;
    }
}

//@ props=C31 kind=bounded bound="schema (INT4, BLOB); blob payload 0..=1 bytes; one arbitrary earlier row before reset()" timeout=1500
/// building after reset() yields the same bytes as building fresh: whatever row (including set then
/// set_null on the same column) was staged before reset, the next record is byte-identical to the one a
/// new builder produces (witness index)
#[kani::proof]
#[kani::unwind(6)]
fn c31_reset_same_bytes_as_fresh() {
    let schema: &'static Schema = Box::leak(Box::new(schema_int4_blob()));
    // earlier row: arbitrary, with an optional set-then-null on column 0
    let (n1a, n1b, then_null): (bool, bool, bool) = (kani::any(), kani::any(), kani::any());
    let a1: i32 = kani::any();
    let by1: [u8; 2] = kani::any();
    let l1: usize = if kani::any() { 1 } else { 0 };
    let mut b = RecordBuilder::new(schema);
    fill(&mut b, n1a, a1, n1b, &by1, l1);
    if then_null { b.set_null(0); }
    b.reset();
    // next row
    let (n2a, n2b): (bool, bool) = (kani::any(), kani::any());
    let a2: i32 = kani::any();
    let by2: [u8; 2] = kani::any();
    let l2: usize = if kani::any() { 1 } else { 0 };
    fill(&mut b, n2a, a2, n2b, &by2, l2);
    let mut f = RecordBuilder::new(schema);
    fill(&mut f, n2a, a2, n2b, &by2, l2);
    let r1 = match vs::is_ok_forget(b.build()) { Some(r) => r, None => { assert!(false); return; } };
    let r2 = match vs::is_ok_forget(f.build()) { Some(r) => r, None => { assert!(false); return; } };
    assert!(r1.len() == r2.len());
    let w: usize = kani::any();
    kani::assume(w < r1.len());
    assert!(r1[w] == r2[w]);
    core::mem::forget((r1, r2, b, f));
}
}
