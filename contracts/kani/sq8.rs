// C23 contracts for src/hnsw/quantization.rs — SQ8VectorRef::from_bytes on arbitrary bytes
use super::*;
use crate::verif_stubs as vs;

//@ props=C23 kind=proof
/// SQ8VectorRef::from_bytes on ANY bytes of any length 0..=24: Err below the 8-byte header, otherwise Ok with
/// dimension == len - 8 and the data slice inside the input; no panic / OOB
#[kani::proof]
#[kani::unwind(2)]
#[kani::stub(eyre::capture_handler, vs::capture_handler)]
#[kani::stub(eyre::private::new_adhoc, vs::new_adhoc)]
#[kani::stub(eyre::private::format_err, vs::format_err)]
#[kani::stub(alloc::fmt::format, vs::format)]
fn c23_sq8_ref_from_bytes_total() {
    let bytes: [u8; 24] = kani::any();
    let len: usize = kani::any();
    kani::assume(len <= 24);
    match vs::is_ok_forget(SQ8VectorRef::from_bytes(&bytes[..len])) {
        Some(v) => { assert!(len >= 8 && v.dimension() == len - 8 && v.data().len() == len - 8); }
        None => assert!(len < 8),
    }
}
