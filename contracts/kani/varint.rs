// C27 contracts for src/encoding/varint.rs  (child module of crate::encoding::varint under cfg(kani))
use super::*;
use crate::verif_stubs as vs;

/// Oracle: the documented 6-range length table (module docs / property text), not the code.
fn len_spec(v: u64) -> usize {
    match v {
        0..=240 => 1,
        241..=2287 => 2,
        2288..=67823 => 3,
        67824..=16777215 => 4,
        16777216..=4294967295 => 5,
        _ => 9,
    }
}

//@ props=C27 kind=proof
/// O1: forall v, buf: encode writes exactly varint_len(v) == len_spec(v) bytes; frame: bytes >= n unchanged.
#[kani::proof]
#[kani::unwind(10)]
fn c27_encode_len_frame() {
    let v: u64 = kani::any();
    let orig: [u8; 9] = kani::any();
    let mut buf = orig;
    let n = encode_varint(v, &mut buf);
    assert!(n == varint_len(v));
    assert!(n == len_spec(v));
    let i: usize = kani::any();
    kani::assume(i < 9);
    if i >= n {
        assert!(buf[i] == orig[i]);
    }
    kani::cover!(n == 1);
    kani::cover!(n == 2);
    kani::cover!(n == 3);
    kani::cover!(n == 4);
    kani::cover!(n == 5);
    kani::cover!(n == 9);
}

//@ props=C27 kind=proof
/// O2: forall v, forall suffix: decode(encode(v) ++ suffix) == Ok((v, varint_len(v))), also on the exact-length slice.
#[kani::proof]
#[kani::unwind(10)]
#[kani::stub(eyre::capture_handler, vs::capture_handler)]
#[kani::stub(eyre::private::new_adhoc, vs::new_adhoc)]
#[kani::stub(eyre::private::format_err, vs::format_err)]
#[kani::stub(alloc::fmt::format, vs::format)]
fn c27_roundtrip() {
    let v: u64 = kani::any();
    let mut buf: [u8; 9] = kani::any(); // arbitrary suffix bytes after the encoding
    let n = encode_varint(v, &mut buf);
    match vs::is_ok_forget(decode_varint(&buf[..n])) {
        Some((d, k)) => {
            assert!(d == v);
            assert!(k == n);
            assert!(k == varint_len(v));
        }
        None => assert!(false),
    }
    match vs::is_ok_forget(decode_varint(&buf[..])) {
        Some((d, k)) => {
            assert!(d == v);
            assert!(k == varint_len(v));
        }
        None => assert!(false),
    }
    kani::cover!(n == 9);
    kani::cover!(n == 1);
}

//@ props=C27,C23 kind=proof
/// O3: forall byte strings (len 0..=10 symbolic content): Ok((_,k)) with 1<=k<=len and k<=9, or Err; no panic / OOB.
/// A 10-byte buffer is complete for "every byte string": the function never indexes beyond buf[8]
/// (asserted as k <= 9 and checked by Kani's bounds checks on a buffer that *has* a 10th byte).
#[kani::proof]
#[kani::unwind(11)]
#[kani::stub(eyre::capture_handler, vs::capture_handler)]
#[kani::stub(eyre::private::new_adhoc, vs::new_adhoc)]
#[kani::stub(eyre::private::format_err, vs::format_err)]
#[kani::stub(alloc::fmt::format, vs::format)]
fn c27_decode_total() {
    let bytes: [u8; 10] = kani::any();
    let len: usize = kani::any();
    kani::assume(len <= 10);
    let r = vs::is_ok_forget(decode_varint(&bytes[..len]));
    if let Some((_, k)) = r {
        assert!(k >= 1 && k <= len && k <= 9);
    }
    kani::cover!(r.is_some());
    kani::cover!(r.is_none() && len > 0);
}

//@ props=C27 kind=proof
/// O4: decode depends only on the first k bytes (prefix-determinism) and is length-consistent:
/// k >= len_spec(value); k == len_spec(value) iff the consumed bytes are exactly encode(value).
#[kani::proof]
#[kani::unwind(11)]
#[kani::stub(eyre::capture_handler, vs::capture_handler)]
#[kani::stub(eyre::private::new_adhoc, vs::new_adhoc)]
#[kani::stub(eyre::private::format_err, vs::format_err)]
#[kani::stub(alloc::fmt::format, vs::format)]
fn c27_decode_canonical() {
    let bytes: [u8; 9] = kani::any();
    let len: usize = kani::any();
    kani::assume(len <= 9);
    if let Some((v, k)) = vs::is_ok_forget(decode_varint(&bytes[..len])) {
        assert!(k >= len_spec(v));
        let mut enc = [0u8; 9];
        let n = encode_varint(v, &mut enc);
        let i: usize = kani::any();
        kani::assume(i < 9);
        if k == n && i < n {
            assert!(enc[i] == bytes[i]);
        }
        // non-canonical encodings exist (marker 250 with a small value): documented, not rejected
        kani::cover!(k > n);
    }
}
