// C15 contracts for src/types/value.rs — Value::compare_for_sort (the comparator the dynamic SortState
// and window/TopK code sort with, via sql::util::compare_values_for_sort)
use super::*;
use std::cmp::Ordering;

fn any_val() -> Value<'static> {
    let w: u8 = kani::any();
    kani::assume(w < 3);
    match w {
        0 => Value::Null,
        1 => Value::Int(kani::any()),
        _ => { let f: f64 = kani::any(); kani::assume(!f.is_nan()); Value::Float(f) }
    }
}

//@ props=C15 kind=proof
/// compare_for_sort: NULL is ordered before every non-NULL value and equal to NULL (ASC; DESC is
/// reverse() at the call sites); agrees with numeric order on Int/Int and Float/Float
#[kani::proof]
#[kani::unwind(2)]
fn c15_compare_for_sort_null_first_and_numeric() {
    let (a, b) = (any_val(), any_val());
    let ab = a.compare_for_sort(&b);
    assert!(ab == b.compare_for_sort(&a).reverse());
    match (&a, &b) {
        (Value::Null, Value::Null) => assert!(ab == Ordering::Equal),
        (Value::Null, _) => assert!(ab == Ordering::Less),
        (_, Value::Null) => assert!(ab == Ordering::Greater),
        (Value::Int(x), Value::Int(y)) => assert!(ab == x.cmp(y)),
        (Value::Float(x), Value::Float(y)) => assert!(Some(ab) == x.partial_cmp(y)),
        _ => {}
    }
}

//@ props=C15 kind=proof
/// compare_for_sort is transitive on {NULL, Int} ∪ {NULL, Float} keys (one numeric type per key + NULL)
#[kani::proof]
#[kani::unwind(2)]
fn c15_compare_for_sort_transitive() {
    let (a, b, c) = (any_val(), any_val(), any_val());
    let ok = |x: &Value, y: &Value| matches!((x, y), (Value::Null, _) | (_, Value::Null) | (Value::Int(_), Value::Int(_)) | (Value::Float(_), Value::Float(_)));
    kani::assume(ok(&a, &b) && ok(&b, &c) && ok(&a, &c));
    let (ab, bc, ac) = (a.compare_for_sort(&b), b.compare_for_sort(&c), a.compare_for_sort(&c));
    if ab != Ordering::Greater && bc != Ordering::Greater { assert!(ac != Ordering::Greater); }
    if ab == Ordering::Equal && bc == Ordering::Equal { assert!(ac == Ordering::Equal); }
}
