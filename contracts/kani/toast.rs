// C23 contracts for src/storage/toast.rs — ToastPointer codec
use super::*;
use crate::verif_stubs as vs;

//@ props=C23 kind=proof
/// ToastPointer::decode on ANY bytes of any length 0..=20: Ok or Err, never a panic; Ok only for >= 17 bytes
/// starting with the marker; decode(encode(p)) == p for every pointer (total_size, row id, column index);
/// is_toast_pointer accepts exactly the 17-byte strings starting with the marker
#[kani::proof]
#[kani::unwind(2)]
#[kani::stub(eyre::capture_handler, vs::capture_handler)]
#[kani::stub(eyre::private::new_adhoc, vs::new_adhoc)]
#[kani::stub(eyre::private::format_err, vs::format_err)]
#[kani::stub(alloc::fmt::format, vs::format)]
fn c23_toast_pointer_total_and_roundtrip() {
    let bytes: [u8; 20] = kani::any();
    let len: usize = kani::any();
    kani::assume(len <= 20);
    let r = vs::is_ok_forget(ToastPointer::decode(&bytes[..len]));
    assert!(r.is_some() == (len >= TOAST_POINTER_SIZE && bytes[0] == TOAST_MARKER));
    assert!(is_toast_pointer(&bytes[..len]) == (len == TOAST_POINTER_SIZE && bytes[0] == TOAST_MARKER));
    let (row, col, size): (u64, u16, u64) = (kani::any(), kani::any(), kani::any());
    kani::assume(row < (1u64 << 48));
    let p = ToastPointer::new(row, col, size);
    let enc = p.encode();
    match vs::is_ok_forget(ToastPointer::decode(&enc[..])) {
        Some(q) => assert!(q.total_size == size && q.row_id() == row && q.column_index() == col),
        None => assert!(false),
    }
}
