#!/usr/bin/env python3
"""Updates seeded/*/meta.json `detected_by` from the recorded outcomes below and prints the DESIGN.md table.
Outcomes are what `tools/try_seed.sh <seed> <PROP>` reported (exit code, failing obligations)."""
import json, os
V = os.path.dirname(os.path.dirname(os.path.abspath(__file__)))
OUT = {
 # seed: (verdict, obligations / reason)
 "C27-A": ("VIOLATION", "c27_encode_len_frame, c27_roundtrip (replayed: v = 4294967295)"),
 "C27-B": ("VIOLATION", "c27_decode_total, c27_decode_canonical (replayed: marker 255, length 8 -> slice panic)"),
 "C26-A": ("VIOLATION", "c26_float_order, c26_zero_shared_key, c26_float_inverse (replayed: -0.0)"),
 "C26-B": ("VIOLATION", "c26_escape_inverse_alphabet (concrete Kani twin; the Verus unit key_escape is UNDECIDED on the restructured loop — 'annotation no longer fits'). Before that twin existed the check answered UNDECIDED (exit 2): missed, then strengthened"),
 "C33-A": ("VIOLATION", "c33_float_roundtrip_nonzero (seed written against the pinned row_serde.rs; evaluated on pinned file + patch because fix f2ca7b0 removed the patched line)"),
 "C33-B": ("VIOLATION", "c33_row_sequence_1_0 (cursor not advanced after an empty row)"),
 "C41-A": ("VIOLATION", "c41_literal_year_steps_at_centuries (concrete-year Kani twin; the Verus unit literal_year_loop is UNDECIDED because the year loop was replaced by a closed form, and the complete fallback twin c41_literal_year_step timed out). Before that twin existed: UNDECIDED (exit 2): missed, then strengthened"),
 "C41-B": ("VIOLATION", "c41_date_to_days_anchor_successor, c41_days_to_date_inverse_m01/m02 (years divisible by 400)"),
 "C34-A": ("VIOLATION", "c34_release_h1_full_p2, c34_release_h2_full_p1 (next_trunk of the new trunk not written)"),
 "C34-B": ("NOT-APPLICABLE-AFTER-FIX", "the seeded branch (`count == 0 && next_trunk != 0` in allocate) was rewritten by fix b50d386; on the pinned tree the allocate obligations already fail because of the genuine defect, so the seed cannot be told apart there"),
 "C39-A": ("VIOLATION", "c39_allocate_step (total_used > limit after an in-reservation allocation)"),
 "C39-B": ("MISSED (outside claim)", "race between release's load and store(0): a schedule property; the C39 check decides the sequential refinement only (level_note)"),
 "C16-A": ("MISSED (outside claim)", "HashAggregate arm of DynamicExecutor::next (grouping on expressions over empty input); the C16 check covers AggregateState only"),
 "C16-B": ("MISSED (outside claim)", "planner drops HAVING without GROUP BY; outside the accumulator"),
 "C15-A": ("MISSED (outside claim)", "sort-key *expression* evaluation (eval_binary_op_standalone); the C15 check covers the comparators and LimitExecutor"),
 "C15-B": ("MISSED (outside claim)", "DISTINCT dedup key hashing in Database::query_with_columns; DISTINCT is declared not covered"),
 "C14-A": ("MISSED (outside claim)", "LIKE matcher backtracking; LIKE is declared not covered (string code)"),
 "C14-B": ("VIOLATION", "c14_is_null_literal_trees (added after the first evaluation missed it: IS NULL over a computed operand)"),
 "C20-A": ("MISSED (outside claim)", "LPAD byte/char confusion; string functions are outside both back ends (str reasoning)"),
 "C20-B": ("VIOLATION", "c41_days_to_date_inverse_m02 (Feb 29 -> Feb 30)"),
 "C23-A": ("see table", ""),
 "C23-B": ("see table", ""),
 "C31-A": ("NO CHECK", "C31 is not claimed (bounded attempt exceeded 45 GB in CBMC)"),
 "C31-B": ("NO CHECK", "C31 is not claimed"),
}
extra = os.path.join(V, "seeded", "outcomes_extra.json")
if os.path.exists(extra):
    OUT.update({k: tuple(v) for k, v in json.load(open(extra)).items()})
rows = []
for seed in sorted(os.listdir(os.path.join(V, "seeded"))):
    mp = os.path.join(V, "seeded", seed, "meta.json")
    if not os.path.exists(mp):
        continue
    m = json.load(open(mp))
    v, why = OUT.get(seed, ("not evaluated", ""))
    m["detected_by"] = {"verdict": v, "detail": why, "how": "tools/try_seed.sh %s %s (check run against a scratch copy of /repo's tree with patch.diff applied)" % (seed, m["property"])}
    json.dump(m, open(mp, "w"), indent=1)
    rows.append("| %s | %s | %s | %s |" % (seed, m["needs_to_manifest"][:110].replace("|", "/"), v, why.replace("|", "/")))
print("| seed | needs, to manifest | verdict of the property's check | failing obligations / reason |")
print("|---|---|---|---|")
print("\n".join(rows))
