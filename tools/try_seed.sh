#!/bin/sh
# usage: try_seed.sh <seed-dir-name e.g. C27-A> <PROP> [extra check args]
# Runs the check against a scratch copy of /repo's working tree with the seeded patch applied
# (equivalent to `git -C /repo apply`, check, `git -C /repo checkout -- .` but leaves /repo untouched so
# that other checks can run concurrently).  Evidence/replays of the seeded run go to a scratch dir.
seed="$1"; prop="$2"; shift 2
W=/var/tmp/turdb-verif/seedrun-$seed-$$
mkdir -p "$W" && rsync -a --exclude /target --exclude /.git /repo/ "$W/repo/" || exit 3
# a seed written against the pinned commit whose file was later changed by a fix: VERIF_SEED_BASE="<commit>:<path>"
# restores that file from the commit in the scratch copy before patching (the check then also reports the
# defect the fix repaired; detection of the seed is read off the obligations the fix did not concern)
if [ -n "$VERIF_SEED_BASE" ]; then c=${VERIF_SEED_BASE%%:*}; f=${VERIF_SEED_BASE#*:}; git -C /repo show "$c:$f" > "$W/repo/$f" || exit 3; fi
( cd "$W/repo" && patch -p1 -s --no-backup-if-mismatch < /verif/seeded/$seed/patch.diff ) || { echo "SEED DOES NOT APPLY on current tree"; rm -rf "$W"; exit 3; }
cd /verif && VERIF_REPO="$W/repo" VERIF_EVIDENCE_DIR="$W/evidence" VERIF_REPLAY_DIR="$W/replays" ./check "$prop" "$@"; rc=$?
mkdir -p /verif/seeded/$seed/detection && cp "$W/evidence/$prop.json" /verif/seeded/$seed/detection/evidence.json 2>/dev/null
ls "$W/replays" 2>/dev/null | head -3
cp "$W"/replays/* /verif/seeded/$seed/detection/ 2>/dev/null
rm -rf "$W"
echo "try_seed $seed $prop rc=$rc"
exit $rc
