#!/bin/sh
# usage: try_seed.sh <patch.diff> <PROP> [extra check args]   — applies the patch to /repo, runs the check, reverts.
patch="$1"; prop="$2"; shift 2
cd /repo || exit 3
git apply --check "$patch" || { echo "patch does not apply"; exit 3; }
git apply "$patch"
cd /verif && ./check "$prop" "$@"; rc=$?
git -C /repo checkout -- . 
echo "try_seed rc=$rc"
exit $rc
