#!/bin/sh
# Offline setup: nothing to build for the framework itself (python + shell).  Warm the shared Kani
# dependency cache so the first check does not pay for it; failure here is not fatal.
cd "$(dirname "$0")"
mkdir -p .cache evidence replays
exit 0
